import RisorModel.C04.SeqCert
import RisorModel.C04.CertCore
import RisorModel.C04.Props
import RisorModel.C04.FragCertLemmas
import RisorModel.C04.CloCertLemmas
import RisorModel.C01.SeqLemmas
/-!
C04 on C01's container fragment F6 — helper lemmas.

The generic development of `CertCore.lean` (`Ctx α io`: one code object with the heights of its
slots; `G.Ok`, `G.Tgt`, `G.At`, the per-instruction lemmas `okwin_*`; three-slot instructions in
`CloCertLemmas.lean`) at the instruction type of `Seq.lean` (`SCtx`).  `okwin_forIter` is the one
new instruction KIND: `ForIter d m` has TWO successors with DIFFERENT heights — the exhaustion edge
`(pc + d, x - 1)` (the iterator is dropped) and the iteration edge `(pc + 3, x + m')` (the iterator
stays, `m'` loop values are pushed).  The lemmas per construct (`ok_*`) compose the instruction
lemmas along the shape of `Seq.comp`; `ok_all` is the structural induction.  The statement of the
induction (`PComp`) carries the flag `rng` of `Seq.comp`: a `break` that escapes a node entered at
height `x` arrives at its target with `x - rngD rng` (the iterator popped), a `continue` with `x`.
-/
namespace Risor.C04.SeqC
open Risor.C01 Risor.C01.Seq
open Risor.C01.Frag (isNilL leaves isBlock isElse isL isInit isPost opOK postName isDefault countDefault
  assignK preLen)

/-! ### lengths of the height lists: those of the code pieces -/

@[simp] theorem storesH_length (y : Nat) (xs : List String) : (storesH y xs).length = 2 * xs.length := by
  induction xs with
  | nil => rfl
  | cons x xs ih => simp only [storesH, List.length_append, r2_length, ih, List.length_cons]; omega

macro "shlen_rest" : tactic =>
  `(tactic| (refine ⟨?_, by intro rng k; simp [htsVals, valsLen], by intro rng k; simp [htsCmpCase, caseCmpLen],
      by intro rng b; simp [htsCmp, cmpLen], by intro rng a; simp [htsBody, caseBodyLen],
      by intro rng d; simp [htsBodies, bodiesLen], by intro rng s; simp [htsDfltBody, dfltBodyLen],
      by intro rng s; simp [htsDflt, defLen], by intro rng s; simp [htsItems, itemsLen]⟩))

theorem hts_lengths (n : N) :
    (∀ rng x, (hts rng x n).length = size rng n) ∧ (∀ rng s, (htsVals rng s n).length = valsLen rng n) ∧
    (∀ rng s, (htsCmpCase rng s n).length = caseCmpLen rng n) ∧ (∀ rng s, (htsCmp rng s n).length = cmpLen rng n) ∧
    (∀ rng s, (htsBody rng s n).length = caseBodyLen rng n) ∧ (∀ rng s, (htsBodies rng s n).length = bodiesLen rng n) ∧
    (∀ rng s, (htsDfltBody rng s n).length = dfltBodyLen rng n) ∧ (∀ rng s, (htsDflt rng s n).length = defLen rng n) ∧
    (∀ rng s, (htsItems rng s n).length = itemsLen rng n) := by
  induction n with
  | cons h t ihh iht =>
    obtain ⟨h1, _, h3, _, h5, _, h7, _, _⟩ := ihh
    obtain ⟨t1, t2, _, t4, _, t6, _, t8, t9⟩ := iht
    refine ⟨?_, ?_, ?_, ?_, ?_, ?_, ?_, ?_, ?_⟩
    · intro rng x
      simp only [hts, size, List.length_append, preH_length]
      split <;> split <;> simp [h1, t1] <;> omega
    · intro rng s; simp [htsVals, valsLen, h1, t2]; omega
    · intro rng s; simp [htsCmpCase, caseCmpLen]
    · intro rng s; simp [htsCmp, cmpLen, h3, t4]
    · intro rng s; simp [htsBody, caseBodyLen]
    · intro rng s; simp [htsBodies, bodiesLen, h5, t6]
    · intro rng s; simp [htsDfltBody, dfltBodyLen]
    · intro rng s; simp only [htsDflt, defLen]; split <;> simp [h7, t8]
    · intro rng s; simp [htsItems, itemsLen, h1, t9]
  | case_ vals body ihv ihb =>
    refine ⟨?_, ?_, ?_, ?_, ?_, ?_, ?_, ?_, ?_⟩
    · intro rng x; simp [hts, size]
    · intro rng s; simp [htsVals, valsLen]
    · intro rng s; simp [htsCmpCase, caseCmpLen, ihv.2.1]
    · intro rng s; simp [htsCmp, cmpLen]
    · intro rng s; simp [htsBody, caseBodyLen, ihb.1]
    · intro rng s; simp [htsBodies, bodiesLen]
    · intro rng s; simp [htsDfltBody, dfltBodyLen]
    · intro rng s; simp [htsDflt, defLen]
    · intro rng s; simp [htsItems, itemsLen]
  | default_ body ihb =>
    refine ⟨?_, ?_, ?_, ?_, ?_, ?_, ?_, ?_, ?_⟩
    · intro rng x; simp [hts, size]
    · intro rng s; simp [htsVals, valsLen]
    · intro rng s; simp [htsCmpCase, caseCmpLen]
    · intro rng s; simp [htsCmp, cmpLen]
    · intro rng s; simp [htsBody, caseBodyLen]
    · intro rng s; simp [htsBodies, bodiesLen]
    · intro rng s; simp [htsDfltBody, dfltBodyLen, ihb.1]
    · intro rng s; simp [htsDflt, defLen]
    · intro rng s; simp [htsItems, itemsLen]
  | «infix» op l r ihl ihr =>
    shlen_rest
    intro rng x
    by_cases h1 : op = .and
    · simp [hts, size, h1, ihl.1, ihr.1]; omega
    · by_cases h2 : op = .or
      · simp [hts, size, h2, ihl.1, ihr.1]; omega
      · simp [hts, size, h1, h2, ihl.1, ihr.1]; omega
  | assign x op e ih =>
    shlen_rest
    intro rng x
    by_cases h1 : op = .set
    · simp [hts, size, h1, ih.1]
    · simp [hts, size, h1, ih.1]; omega
  | for3 i c p b ihi ihc ihp ihb =>
    shlen_rest
    intro rng x
    simp only [hts, size, List.length_append, ihi.1, ihc.1, ihp.1, ihb.1, r2_length, r1_length]
    split <;> simp <;> omega
  | switch subj cases ihs ihc =>
    shlen_rest
    intro rng x
    simp [hts, size, ihs.1, ihc.2.2.2.1, ihc.2.2.2.2.2.1, ihc.2.2.2.2.2.2.2.1]; omega
  | setitem op o i v iho ihi ihv =>
    shlen_rest
    intro rng x
    by_cases h1 : op = .set
    · simp [hts, size, h1, iho.1, ihi.1, ihv.1]; omega
    · simp [hts, size, h1, iho.1, ihi.1, ihv.1]; omega
  | break_ => shlen_rest; intro rng x; cases rng <;> simp [hts, size]
  | list items ih => shlen_rest; intro rng x; simp [hts, size, ih.2.2.2.2.2.2.2.2]
  | index e i ihe ihi => shlen_rest; intro rng x; simp [hts, size, ihe.1, ihi.1]; omega
  | forrange k v c b ihc ihb => shlen_rest; intro rng x; simp [hts, size, ihc.1, ihb.1, CloC.r3_length]; omega
  | forin v c b ihc ihb => shlen_rest; intro rng x; simp [hts, size, ihc.1, ihb.1, CloC.r3_length]; omega
  | tern c a b ihc iha ihb => shlen_rest; intro rng x; simp [hts, size, ihc.1, iha.1, ihb.1]; omega
  | if_ c a b ihc iha ihb => shlen_rest; intro rng x; simp [hts, size, ihc.1, iha.1, ihb.1]; omega
  | forcond c b ihc ihb => shlen_rest; intro rng x; simp [hts, size, ihc.1, ihb.1]; omega
  | forever b ihb => shlen_rest; intro rng x; simp [hts, size, ihb.1]
  | neg e ih => shlen_rest; intro rng x; simp [hts, size, ih.1]
  | not e ih => shlen_rest; intro rng x; simp [hts, size, ih.1]
  | var x e ih => shlen_rest; intro rng x; simp [hts, size, ih.1]
  | block s ih => shlen_rest; intro rng x; simp [hts, size, ih.1]
  | prog s ih => shlen_rest; intro rng x; simp [hts, size, ih.1]
  | expr s ih => shlen_rest; intro rng x; simp [hts, size, ih.1]
  | _ => shlen_rest; intro rng x; simp [hts, size]

theorem hts_length (n : N) (rng : Bool) (x : Nat) : (hts rng x n).length = size rng n := (hts_lengths n).1 rng x
theorem htsVals_length (n : N) (rng : Bool) (s : Nat) : (htsVals rng s n).length = valsLen rng n := (hts_lengths n).2.1 rng s
theorem htsCmpCase_length (n : N) (rng : Bool) (s : Nat) : (htsCmpCase rng s n).length = caseCmpLen rng n := (hts_lengths n).2.2.1 rng s
theorem htsCmp_length (n : N) (rng : Bool) (s : Nat) : (htsCmp rng s n).length = cmpLen rng n := (hts_lengths n).2.2.2.1 rng s
theorem htsBody_length (n : N) (rng : Bool) (s : Nat) : (htsBody rng s n).length = caseBodyLen rng n := (hts_lengths n).2.2.2.2.1 rng s
theorem htsBodies_length (n : N) (rng : Bool) (s : Nat) : (htsBodies rng s n).length = bodiesLen rng n := (hts_lengths n).2.2.2.2.2.1 rng s
theorem htsDflt_length (n : N) (rng : Bool) (s : Nat) : (htsDflt rng s n).length = defLen rng n := (hts_lengths n).2.2.2.2.2.2.2.1 rng s
theorem htsItems_length (n : N) (rng : Bool) (s : Nat) : (htsItems rng s n).length = itemsLen rng n := (hts_lengths n).2.2.2.2.2.2.2.2 rng s
theorem compCmpCase_length (n : N) (k : Nat) (rng : Bool) : (compCmpCase rng k n).length = caseCmpLen rng n := (comp_lengths n).2.2.1 rng k

/-- the items of a list literal: their code begins with an instruction and their heights with the
    entry height, or there is none -/
def HeadItems (n : N) : Prop :=
  wfVals n = true → ∀ rng x, (∃ i c t, compItems rng n = some i :: c ∧ htsItems rng x n = x :: t) ∨
    (compItems rng n = [] ∧ htsItems rng x n = [] ∧ countItems n = 0)

def HeadComp (n : N) : Prop :=
  wf n = true → ∀ rng kb kc x, ∃ i c t, comp kb kc rng n = some i :: c ∧ hts rng x n = x :: t

macro "hd_rest" : tactic => `(tactic| (refine ⟨?_, by intro hw; simp [wfVals] at hw⟩))

/-- a node whose code starts with the code of its first sub-node -/
theorem head_of_first {n s : N} {rng rng' : Bool} {kb kc kb' kc' x : Nat} {c2 : Seq.Code} {h2 : List Nat}
    (hc : comp kb kc rng n = comp kb' kc' rng' s ++ c2) (hh : hts rng x n = hts rng' x s ++ h2)
    (ih : ∃ i c t, comp kb' kc' rng' s = some i :: c ∧ hts rng' x s = x :: t) :
    ∃ i c t, comp kb kc rng n = some i :: c ∧ hts rng x n = x :: t := by
  obtain ⟨i, c, t, e1, e2⟩ := ih
  exact ⟨i, c ++ c2, t ++ h2, by rw [hc, e1]; rfl, by rw [hh, e2]; rfl⟩

theorem head_comp_all (n : N) : HeadComp n ∧ HeadItems n := by
  induction n with
  | nilLit => hd_rest; intro _ rng kb kc x; exact ⟨_, _, _, rfl, rfl⟩
  | none_ => hd_rest; intro _ rng kb kc x; exact ⟨_, _, _, rfl, rfl⟩
  | nilL =>
    refine ⟨?_, ?_⟩
    · intro _ rng kb kc x; exact ⟨_, _, _, rfl, rfl⟩
    · intro _ rng x; exact .inr ⟨rfl, rfl, rfl⟩
  | bool b => hd_rest; intro _ rng kb kc x; exact ⟨_, _, _, rfl, rfl⟩
  | int i => hd_rest; intro _ rng kb kc x; exact ⟨_, _, _, rfl, rfl⟩
  | str s => hd_rest; intro _ rng kb kc x; exact ⟨_, _, _, rfl, rfl⟩
  | id s => hd_rest; intro _ rng kb kc x; exact ⟨_, _, _, rfl, rfl⟩
  | break_ => hd_rest; intro _ rng kb kc x; cases rng <;> exact ⟨_, _, _, rfl, rfl⟩
  | continue_ => hd_rest; intro _ rng kb kc x; exact ⟨_, _, _, rfl, rfl⟩
  | «postfix» s inc => hd_rest; intro _ rng kb kc x; exact ⟨_, _, _, rfl, rfl⟩
  | «infix» op l r ihl _ =>
    hd_rest
    intro hw rng kb kc x
    simp only [wf, Bool.and_eq_true] at hw
    have ih := ihl.1 hw.1.2 rng 0 0 x
    by_cases h1 : op = .and
    · subst h1
      exact head_of_first (by simp only [comp, ↓reduceIte, List.append_assoc] <;> rfl) (by simp only [hts, ↓reduceIte, List.append_assoc] <;> rfl) ih
    · by_cases h2 : op = .or
      · subst h2
        exact head_of_first (by simp only [comp, reduceCtorEq, ↓reduceIte, List.append_assoc] <;> rfl)
          (by simp only [hts, reduceCtorEq, ↓reduceIte, List.append_assoc] <;> rfl) ih
      · exact head_of_first (by simp only [comp, h1, h2, ↓reduceIte, List.append_assoc] <;> rfl)
          (by simp only [hts, h1, h2, ↓reduceIte, List.append_assoc] <;> rfl) ih
  | neg e ih =>
    hd_rest
    intro hw rng kb kc x
    simp only [wf, Bool.and_eq_true] at hw
    exact head_of_first (by simp only [comp] <;> rfl) (by simp only [hts] <;> rfl) (ih.1 hw.2 rng 0 0 x)
  | not e ih =>
    hd_rest
    intro hw rng kb kc x
    simp only [wf, Bool.and_eq_true] at hw
    exact head_of_first (by simp only [comp] <;> rfl) (by simp only [hts] <;> rfl) (ih.1 hw.2 rng 0 0 x)
  | tern c a b ihc _ _ =>
    hd_rest
    intro hw rng kb kc x
    simp only [wf, Bool.and_eq_true] at hw
    exact head_of_first (by simp only [comp, List.append_assoc] <;> rfl) (by simp only [hts, List.append_assoc] <;> rfl) (ihc.1 hw.1.1.2 rng 0 0 x)
  | if_ c a b ihc _ _ =>
    hd_rest
    intro hw rng kb kc x
    simp only [wf, Bool.and_eq_true] at hw
    exact head_of_first (by simp only [comp, List.append_assoc] <;> rfl) (by simp only [hts, List.append_assoc] <;> rfl) (ihc.1 hw.1.1.2 rng 0 0 x)
  | block s ih =>
    hd_rest
    intro hw rng kb kc x
    simp only [wf, Bool.and_eq_true] at hw
    obtain ⟨i, c, t, e1, e2⟩ := ih.1 hw.2 rng kb kc x
    exact ⟨i, c, t, by simp only [comp, e1], by simp only [hts, e2]⟩
  | prog s ih =>
    hd_rest
    intro hw rng kb kc x
    simp only [wf, Bool.and_eq_true] at hw
    obtain ⟨i, c, t, e1, e2⟩ := ih.1 hw.2 rng kb kc x
    exact ⟨i, c, t, by simp only [comp, e1], by simp only [hts, e2]⟩
  | expr s ih =>
    hd_rest
    intro hw rng kb kc x
    simp only [wf, Bool.and_eq_true] at hw
    obtain ⟨i, c, t, e1, e2⟩ := ih.1 hw.2 rng kb kc x
    exact ⟨i, c, t, by simp only [comp, e1], by simp only [hts, e2]⟩
  | var y e ih =>
    hd_rest
    intro hw rng kb kc x
    simp only [wf, Bool.and_eq_true] at hw
    exact head_of_first (by simp only [comp] <;> rfl) (by simp only [hts] <;> rfl) (ih.1 hw.2 rng 0 0 x)
  | assign y op e ih =>
    hd_rest
    intro hw rng kb kc x
    simp only [wf, Bool.and_eq_true] at hw
    by_cases h1 : op = .set
    · exact head_of_first (by simp only [comp, h1, ↓reduceIte] <;> rfl) (by simp only [hts, h1, ↓reduceIte] <;> rfl) (ih.1 hw.2 rng 0 0 x)
    · exact ⟨_, _, _, by simp only [comp, h1, ↓reduceIte, two, List.cons_append]; rfl, by simp only [hts, h1, ↓reduceIte, r2, List.cons_append]; rfl⟩
  | forcond c b ihc _ =>
    hd_rest
    intro hw rng kb kc x
    simp only [wf, Bool.and_eq_true] at hw
    exact head_of_first (by simp only [comp, List.append_assoc] <;> rfl) (by simp only [hts, List.append_assoc] <;> rfl) (ihc.1 hw.1.2 false 0 0 x)
  | forever b ihb =>
    hd_rest
    intro hw rng kb kc x
    simp only [wf, Bool.and_eq_true] at hw
    exact head_of_first (by simp only [comp, List.append_assoc] <;> rfl) (by simp only [hts, List.append_assoc] <;> rfl) (ihb.1 hw.2 false 3 1 x)
  | for3 i0 c p b ihi _ _ _ =>
    hd_rest
    intro hw rng kb kc x
    simp only [wf, Bool.and_eq_true] at hw
    exact head_of_first (by simp only [comp, List.append_assoc] <;> rfl) (by simp only [hts, List.append_assoc] <;> rfl) (ihi.1 hw.1.1.1.2 false 0 0 x)
  | switch subj cases ihs _ =>
    hd_rest
    intro hw rng kb kc x
    simp only [wf, Bool.and_eq_true] at hw
    exact head_of_first (by simp only [comp, List.append_assoc] <;> rfl) (by simp only [hts, List.append_assoc] <;> rfl) (ihs.1 hw.1.1.2 rng 0 0 x)
  | index e i ihe _ =>
    hd_rest
    intro hw rng kb kc x
    simp only [wf, Bool.and_eq_true] at hw
    exact head_of_first (by simp only [comp, List.append_assoc] <;> rfl) (by simp only [hts, List.append_assoc] <;> rfl) (ihe.1 hw.1.2 rng 0 0 x)
  | setitem op o i v iho _ ihv =>
    hd_rest
    intro hw rng kb kc x
    simp only [wf, Bool.and_eq_true] at hw
    by_cases h1 : op = .set
    · exact head_of_first (by simp only [comp, h1, ↓reduceIte, List.append_assoc] <;> rfl) (by simp only [hts, h1, ↓reduceIte, List.append_assoc] <;> rfl)
        (ihv.1 hw.2 rng 0 0 x)
    · exact head_of_first (by simp only [comp, h1, ↓reduceIte, List.append_assoc] <;> rfl) (by simp only [hts, h1, ↓reduceIte, List.append_assoc] <;> rfl)
        (iho.1 hw.1.1.2 rng 0 0 x)
  | forrange k v c b ihc _ =>
    hd_rest
    intro hw rng kb kc x
    simp only [wf, Bool.and_eq_true] at hw
    exact head_of_first (by simp only [comp, List.append_assoc] <;> rfl) (by simp only [hts, List.append_assoc] <;> rfl) (ihc.1 hw.1.2 rng 0 0 x)
  | forin v c b ihc _ =>
    hd_rest
    intro hw rng kb kc x
    simp only [wf, Bool.and_eq_true] at hw
    exact head_of_first (by simp only [comp, List.append_assoc] <;> rfl) (by simp only [hts, List.append_assoc] <;> rfl) (ihc.1 hw.1.2 rng 0 0 x)
  | list items ih =>
    hd_rest
    intro hw rng kb kc x
    simp only [wf] at hw
    rcases ih.2 hw rng x with ⟨i, c, t, e1, e2⟩ | ⟨e1, e2, e3⟩
    · exact ⟨i, _, _, by simp only [comp, e1, List.cons_append]; rfl, by simp only [hts, e2, List.cons_append]; rfl⟩
    · exact ⟨_, _, _, by simp only [comp, e1, two, List.nil_append]; rfl, by simp only [hts, e2, e3, r2, List.nil_append]; rfl⟩
  | cons h t ihh _ =>
    refine ⟨?_, ?_⟩
    · intro hw rng kb kc x
      simp only [wf, Bool.and_eq_true] at hw
      cases hp : postName h with
      | some y =>
        exact ⟨_, _, _, by simp only [comp, pre, hp, two, List.cons_append]; rfl, by simp only [hts, preH, hp, r2, List.cons_append]; rfl⟩
      | none =>
        by_cases hn : isNilL t = true
        · obtain ⟨i, c, t', e1, e2⟩ := ihh.1 hw.1.2 rng (kb + (if leaves h then 0 else 1)) (kc + (if leaves h then 0 else 1)) x
          exact ⟨i, _, _, by simp only [comp, pre, hp, hn, ↓reduceIte, e1, List.nil_append, List.cons_append]; rfl,
            by simp only [hts, preH, hp, hn, ↓reduceIte, e2, List.nil_append, List.cons_append]; rfl⟩
        · obtain ⟨i, c, t', e1, e2⟩ := ihh.1 hw.1.2 rng (kb + ((if leaves h then 1 else 0) + size rng t)) (kc + ((if leaves h then 1 else 0) + size rng t)) x
          exact ⟨i, _, _, by simp only [comp, pre, hp, hn, e1, List.nil_append, List.cons_append]; rfl,
            by simp only [hts, preH, hp, hn, e2, List.nil_append, List.cons_append]; rfl⟩
    · intro hw rng x
      simp only [wfVals, Bool.and_eq_true] at hw
      obtain ⟨i, c, t', e1, e2⟩ := ihh.1 hw.1.2 rng 0 0 x
      exact .inl ⟨i, _, _, by simp only [compItems, e1, List.cons_append]; rfl, by simp only [htsItems, e2, List.cons_append]; rfl⟩
  | _ => hd_rest; intro hw; simp [wf] at hw

theorem head_comp (n : N) (hw : wf n = true) (rng : Bool) (kb kc x : Nat) :
    ∃ i c t, comp kb kc rng n = some i :: c ∧ hts rng x n = x :: t := (head_comp_all n).1 hw rng kb kc x

/-- a code of the container fragment (a main code object) with its heights -/
abbrev SCtx := Ctx Seq.FIns insOf

end Risor.C04.SeqC

/-! ### `ForIter d m`: the one instruction kind with two successors of DIFFERENT heights -/
namespace Risor.C04.Ctx

section foriter
variable {α : Type} {io : α → Ins} {G : Ctx α io}

/-- `ForIter d m` at height `x` (the iterator on top): the exhaustion edge arrives `d` slots
    further with the iterator DROPPED (`x - 1`), the iteration edge falls through with the iterator
    kept and `k` loop values pushed (`x + k`; `k = forIterPush m`) -/
theorem okwin_forIter {pc x d m k : Nat} {i : α} (h : G.At pc [some i, none, none] (r3 x))
    (hk : (io i).kind = .forIter d m) (hsz : (io i).size = 3) (hp : forIterPush m = some k) (hx : 1 ≤ x)
    (hexit : G.Tgt (pc + d) (x - 1)) (hnext : G.Tgt (pc + 3) (x + k)) : G.OkWin pc 3 := by
  intro j hj
  have hj3 : j = 0 ∨ j = 1 ∨ j = 2 := by omega
  rcases hj3 with rfl | rfl | rfl
  · refine ok_ins (l := [(pc + d, x - 1), (pc + 3, x + k)]) h.insAt_three ?_ ?_
    · simp only [succs, hk, hp, hsz, hx, if_true, Nat.add_zero]
    · intro q hq
      simp only [List.mem_cons, List.not_mem_nil, or_false] at hq
      rcases hq with hq | hq
      · subst hq; exact hexit
      · subst hq; exact hnext
  · exact ok_operand (Win.second h.1) (Win.second h.2)
  · exact ok_operand (Win.third h.1) (Win.third h.2)

end foriter

open Risor.C01 Risor.C01.Seq Risor.C04.SeqC
open Risor.C01.Frag (preLen)

variable {G : SCtx}

theorem At.scomp_cons {pc kb kc x : Nat} {rng : Bool} {n : N} {c2 : Seq.Code} {h2 : List Nat}
    (h : G.At pc (comp kb kc rng n ++ c2) (SeqC.hts rng x n ++ h2)) :
    G.At pc (comp kb kc rng n) (SeqC.hts rng x n) ∧ G.At (pc + size rng n) c2 h2 :=
  h.split (comp_length n kb kc rng) (SeqC.hts_length n rng x)

/-- a sub-node's code is a legal target at its entry height -/
theorem At.stgt_comp {pc kb kc x : Nat} {rng : Bool} {n : N} (hw : wf n = true)
    (h : G.At pc (comp kb kc rng n) (SeqC.hts rng x n)) : G.Tgt pc x := by
  obtain ⟨i, c, t, e1, e2⟩ := SeqC.head_comp n hw rng kb kc x
  rw [e1, e2] at h
  exact .inl ⟨i, Win.head h.1, Win.head h.2⟩

/-- `LoadGlobal x; PopTop` before a statement `x++` -/
theorem At.spre_cons {h : N} {pc x : Nat} {c2 : Seq.Code} {h2 : List Nat}
    (hat : G.At pc (pre h ++ c2) (preH x h ++ h2)) :
    G.At pc (pre h) (preH x h) ∧ G.At (pc + preLen h) c2 h2 :=
  hat.split (pre_length h) (preH_length x h)

end Risor.C04.Ctx

namespace Risor.C04.SeqC
open Risor.C01 Risor.C01.Seq
open Risor.C01.Frag (isNilL leaves isBlock isElse isL isInit isPost opOK postName isDefault countDefault
  assignK preLen)
open Risor.C04.Ctx

variable {G : SCtx}

theorem okwin_jf {pc x d : Nat} (h : G.At pc (two (.jf d)) (r2 x)) (ht : G.Tgt (pc + d) x) : G.OkWin pc 2 :=
  okwin_jumpF h rfl ht

theorem okwin_jb {pc x d : Nat} (h : G.At pc (two (.jb d)) (r2 x)) (hd : d ≤ pc) (ht : G.Tgt (pc - d) x) :
    G.OkWin pc 2 :=
  okwin_jumpB h rfl hd ht

/-! ### the statements of the structural induction, one per mutual function of `comp` -/

/-- a node: entered at `x`, left at `x + exitD n`; a `continue` that escapes it jumps with the
    height `x` the node itself was entered with, a `break` with `x - rngD rng`: inside a range loop
    (`rng`) the node sits on top of the loop's iterator (`rngD rng ≤ x`), which `break` pops first -/
def PComp (G : SCtx) (n : N) : Prop :=
  wf n = true → ∀ rng kb kc x pc, G.At pc (comp kb kc rng n) (hts rng x n) →
    G.Tgt (pc + size rng n) (x + exitD n) →
    (escapes n = true → rngD rng ≤ x ∧ G.Tgt (pc + size rng n + kb) (x - rngD rng) ∧ G.Tgt (pc + size rng n + kc) x) →
    G.OkWin pc (size rng n)

/-- comparisons of one case with the subject on the stack (height `s + 1`): fall through and
    match both at `s + 1`; also: the piece (or what follows it) is a legal target at `s + 1` -/
def PVals (G : SCtx) (n : N) : Prop :=
  wfVals n = true → ∀ rng k s pc, G.At pc (compVals rng k n) (htsVals rng (s + 1) n) →
    G.Tgt (pc + valsLen rng n) (s + 1) → G.Tgt (pc + valsLen rng n + k) (s + 1) →
    G.OkWin pc (valsLen rng n) ∧ G.Tgt pc (s + 1)

/-- the comparisons of one case; its body sits `k` slots after them -/
def PCmpCase (G : SCtx) (n : N) : Prop :=
  wfCase n = true → ∀ rng k a s pc, G.At pc (compCmpCase rng k n) (htsCmpCase rng (s + 1) n) →
    G.Tgt (pc + caseCmpLen rng n) (s + 1) →
    G.At (pc + caseCmpLen rng n + k) (compBody rng a n) (htsBody rng (s + 1) n) →
    G.OkWin pc (caseCmpLen rng n) ∧ G.Tgt pc (s + 1)

/-- the comparison section; the bodies of the same cases sit `2 + before` slots after it -/
def PCmp (G : SCtx) (n : N) : Prop :=
  wfCases n = true → ∀ rng before d s pc, G.At pc (compCmp rng before n) (htsCmp rng (s + 1) n) →
    G.Tgt (pc + cmpLen rng n) (s + 1) →
    G.At (pc + cmpLen rng n + 2 + before) (compBodies rng d n) (htsBodies rng (s + 1) n) →
    G.OkWin pc (cmpLen rng n) ∧ G.Tgt pc (s + 1)

/-- one case body and its jump to the `Swap` -/
def PBody (G : SCtx) (n : N) : Prop :=
  wfCase n = true → ∀ rng a s pc, G.At pc (compBody rng a n) (htsBody rng s n) →
    G.Tgt (pc + caseBodyLen rng n + a) (s + 1) → G.OkWin pc (caseBodyLen rng n)

def PBodies (G : SCtx) (n : N) : Prop :=
  wfCases n = true → ∀ rng d s pc, G.At pc (compBodies rng d n) (htsBodies rng s n) →
    G.Tgt (pc + bodiesLen rng n + d) (s + 1) → G.OkWin pc (bodiesLen rng n)

def PDfltBody (G : SCtx) (n : N) : Prop :=
  wfCase n = true → ∀ rng s pc, G.At pc (compDfltBody rng n) (htsDfltBody rng s n) →
    G.Tgt (pc + dfltBodyLen rng n) (s + 1) → G.OkWin pc (dfltBodyLen rng n)

def PDflt (G : SCtx) (n : N) : Prop :=
  wfCases n = true → ∀ rng s pc, G.At pc (compDflt rng n) (htsDflt rng s n) →
    G.Tgt (pc + defLen rng n) (s + 1) → G.OkWin pc (defLen rng n) ∧ G.Tgt pc s

/-- the items of a list literal, the first entered at `s`: after them `countItems n` more values
    are on the stack; also: the piece (or what follows it) is a legal target at `s` -/
def PItems (G : SCtx) (n : N) : Prop :=
  wfVals n = true → ∀ rng s pc, G.At pc (compItems rng n) (htsItems rng s n) →
    G.Tgt (pc + itemsLen rng n) (s + countItems n) → G.OkWin pc (itemsLen rng n) ∧ G.Tgt pc s

theorem exitD_of_not_unit {n : N} (h : isUnitNode n = false) : exitD n = 1 := by simp [exitD, h]
theorem exitD_of_unit {n : N} (h : isUnitNode n = true) : exitD n = 0 := by simp [exitD, h]

/-- an operand (no break/continue escapes it) through its induction hypothesis -/
theorem use_operand {n : N} (ih : PComp G n) (hw : wf n = true) (hx : escapes n = false) {rng : Bool} {pc x : Nat}
    (hat : G.At pc (comp 0 0 rng n) (hts rng x n)) (ht : G.Tgt (pc + size rng n) (x + exitD n)) :
    G.OkWin pc (size rng n) :=
  ih hw rng 0 0 x pc hat ht (by intro h; rw [hx] at h; cases h)

/-- an expression operand: it leaves one value -/
theorem use_expr {n : N} (ih : PComp G n) (hw : wf n = true) (hx : escapes n = false) (he : isE n = true)
    {rng : Bool} {pc x : Nat} (hat : G.At pc (comp 0 0 rng n) (hts rng x n)) (ht : G.Tgt (pc + size rng n) (x + 1)) :
    G.OkWin pc (size rng n) := by
  refine use_operand ih hw hx hat ?_
  rw [exitD_of_not_unit (isE_not_unit he)]; exact ht

/-! ### leaves -/

/-- `PopTop` at height `x + 1` -/
theorem ok_pop {pc x : Nat} (h : G.At pc (one .popTop) (r1 (x + 1))) (ht : G.Tgt (pc + 1) x) : G.OkWin pc 1 :=
  ok_pop1 h rfl rfl ht

/-- `StoreGlobal` at height `x + 1` -/
theorem ok_store {pc x : Nat} {y : String} (h : G.At pc (two (.storeG y)) (r2 (x + 1))) (ht : G.Tgt (pc + 2) x) :
    G.OkWin pc 2 :=
  ok_pop2 h rfl rfl ht

theorem opIns_kind (op : BinOp) : (insOf (opIns op)).kind = .fall 2 1 ∧ (insOf (opIns op)).size = 2 := by
  cases op <;> exact ⟨rfl, rfl⟩

/-! ### expressions -/

theorem ok_infix (op : BinOp) (l r : N) (ihl : PComp G l) (ihr : PComp G r) (hand : op ≠ .and) (hor : op ≠ .or) :
    PComp G (.infix op l r) := by
  intro hw rng kb kc x pc hat hexit _
  simp only [wf, Bool.and_eq_true, Bool.not_eq_true'] at hw
  obtain ⟨⟨⟨⟨⟨⟨_, hel⟩, her⟩, hxl⟩, hxr⟩, hwl⟩, hwr⟩ := hw
  have hsz : size rng (.infix op l r) = size rng l + (size rng r + 2) := by simp [size, hand, hor]; omega
  have hex : exitD (.infix op l r) = 1 := by simp [exitD, isUnitNode]
  rw [hsz, hex] at hexit
  simp only [comp, hts, hand, hor, ↓reduceIte, List.append_assoc] at hat
  obtain ⟨al, hat⟩ := hat.scomp_cons
  obtain ⟨ar, ab⟩ := hat.scomp_cons
  rw [hsz]
  refine (use_expr ihl hwl hxl hel al ?_).append
    ((use_expr ihr hwr hxr her ar ?_).append (ok_bin ab (opIns_kind op).1 (opIns_kind op).2 ?_))
  · exact ar.stgt_comp hwr
  · exact ab.tgt_two.cast (by omega) (by omega)
  · exact hexit.cast (by omega) (by omega)

/-- `l && r` / `l || r`: the short-circuit jump leaves with the copy of the left value -/
theorem ok_sc (l r : N) (rng : Bool) (j : FIns) (k : Nat) (hj : (insOf j).kind = .condF (size rng r + 5)) (hjs : (insOf j).size = 2)
    (ihl : PComp G l) (ihr : PComp G r) (hwl : wf l = true) (hwr : wf r = true)
    (hxl : escapes l = false) (hxr : escapes r = false) (hel : isE l = true) (her : isE r = true) {pc x : Nat}
    (hat : G.At pc (comp 0 0 rng l ++ (two (.copy 0) ++ (two j ++ (comp 0 0 rng r ++ (two (.binary k) ++ one .nop)))))
      (hts rng x l ++ (r2 (x + 1) ++ (r2 (x + 2) ++ (hts rng (x + 1) r ++ (r2 (x + 2) ++ r1 (x + 1)))))))
    (hexit : G.Tgt (pc + (size rng l + (2 + (2 + (size rng r + (2 + 1)))))) (x + 1)) :
    G.OkWin pc (size rng l + (2 + (2 + (size rng r + (2 + 1))))) := by
  obtain ⟨al, hat⟩ := hat.scomp_cons
  obtain ⟨acp, hat⟩ := hat.two_cons
  obtain ⟨aj, hat⟩ := hat.two_cons
  obtain ⟨ar, hat⟩ := hat.scomp_cons
  obtain ⟨ab, an⟩ := hat.two_cons
  refine (use_expr ihl hwl hxl hel al ?_).append ((okwin_need2 acp (a := 1) (b := 1) rfl rfl (by omega) ?_).append
    ((okwin_cond aj hj hjs (by omega) ?_ ?_).append ((use_expr ihr hwr hxr her ar ?_).append
      ((ok_bin ab (i := .binary k) rfl rfl ?_).append (okwin_fall1 an (a := 0) (b := 0) rfl rfl (by omega) ?_)))))
  · exact acp.tgt_two
  · exact aj.tgt_two.cast (by omega) (by omega)
  · exact hexit.cast (by omega) (by omega)
  · exact (ar.stgt_comp hwr).cast (by omega) (by omega)
  · exact ab.tgt_two.cast (by omega) (by omega)
  · exact an.tgt_one
  · exact hexit.cast (by omega) (by omega)

theorem ok_and (l r : N) (ihl : PComp G l) (ihr : PComp G r) : PComp G (.infix .and l r) := by
  intro hw rng kb kc x pc hat hexit _
  simp only [wf, Bool.and_eq_true, Bool.not_eq_true'] at hw
  obtain ⟨⟨⟨⟨⟨⟨_, hel⟩, her⟩, hxl⟩, hxr⟩, hwl⟩, hwr⟩ := hw
  have hsz : size rng (.infix .and l r) = size rng l + (2 + (2 + (size rng r + (2 + 1)))) := by simp [size]; omega
  have hex : exitD (.infix .and l r) = 1 := by simp [exitD, isUnitNode]
  rw [hsz, hex] at hexit
  simp only [comp, hts, ↓reduceIte, List.append_assoc] at hat
  rw [hsz]
  exact ok_sc l r rng _ 6 rfl rfl ihl ihr hwl hwr hxl hxr hel her hat hexit

theorem ok_or (l r : N) (ihl : PComp G l) (ihr : PComp G r) : PComp G (.infix .or l r) := by
  intro hw rng kb kc x pc hat hexit _
  simp only [wf, Bool.and_eq_true, Bool.not_eq_true'] at hw
  obtain ⟨⟨⟨⟨⟨⟨_, hel⟩, her⟩, hxl⟩, hxr⟩, hwl⟩, hwr⟩ := hw
  have hsz : size rng (.infix .or l r) = size rng l + (2 + (2 + (size rng r + (2 + 1)))) := by simp [size]; omega
  have hex : exitD (.infix .or l r) = 1 := by simp [exitD, isUnitNode]
  rw [hsz, hex] at hexit
  simp only [comp, hts, reduceCtorEq, ↓reduceIte, List.append_assoc] at hat
  rw [hsz]
  exact ok_sc l r rng _ 7 rfl rfl ihl ihr hwl hwr hxl hxr hel her hat hexit

/-- `-e` / `!e` -/
theorem ok_unary (e : N) (i : FIns) (hk : (insOf i).kind = .fall 1 1) (hs : (insOf i).size = 1) (ih : PComp G e)
    (hwe : wf e = true) (hxe : escapes e = false) (hee : isE e = true) {rng : Bool} {pc x : Nat}
    (hat : G.At pc (comp 0 0 rng e ++ one i) (hts rng x e ++ r1 (x + 1))) (hexit : G.Tgt (pc + (size rng e + 1)) (x + 1)) :
    G.OkWin pc (size rng e + 1) := by
  obtain ⟨ae, ai⟩ := hat.scomp_cons
  refine (use_expr ih hwe hxe hee ae ?_).append (okwin_fall1 ai hk hs (by omega) ?_)
  · exact ai.tgt_one
  · exact hexit.cast (by omega) (by omega)

/-- `c ? a : b` and `if c { a } else b`: both branches are entered at the node's own height,
    so a break/continue inside them jumps from that height -/
theorem ok_cond (c a b : N) (ihc : PComp G c) (iha : PComp G a) (ihb : PComp G b)
    (hwc : wf c = true) (hwa : wf a = true) (hwb : wf b = true) (hxc : escapes c = false)
    (huc : isUnitNode c = false) (hua : isUnitNode a = false) (hub : isUnitNode b = false) {rng : Bool} {pc x kb kc : Nat}
    (hat : G.At pc (comp 0 0 rng c ++ (two (.pjf (size rng a + 4)) ++ (comp (kb + (size rng b + 2)) (kc + (size rng b + 2)) rng a
        ++ (two (.jf (size rng b + 2)) ++ comp kb kc rng b))))
      (hts rng x c ++ (r2 (x + 1) ++ (hts rng x a ++ (r2 (x + 1) ++ hts rng x b)))))
    (hexit : G.Tgt (pc + (size rng c + (2 + (size rng a + (2 + size rng b))))) (x + 1))
    (hesc : (escapes a = true ∨ escapes b = true) → rngD rng ≤ x ∧
      G.Tgt (pc + (size rng c + (2 + (size rng a + (2 + size rng b)))) + kb) (x - rngD rng) ∧
      G.Tgt (pc + (size rng c + (2 + (size rng a + (2 + size rng b)))) + kc) x) :
    G.OkWin pc (size rng c + (2 + (size rng a + (2 + size rng b)))) := by
  obtain ⟨ac, hat⟩ := hat.scomp_cons
  obtain ⟨aj, hat⟩ := hat.two_cons
  obtain ⟨aa, hat⟩ := hat.scomp_cons
  obtain ⟨af, ab⟩ := hat.two_cons
  refine (use_operand ihc hwc hxc ac ?_).append ((okwin_cond aj (i := .pjf (size rng a + 4)) (d := size rng a + 4) rfl rfl (by omega) ?_ ?_).append
    ((iha hwa rng _ _ x _ aa ?_ ?_).append ((okwin_jf af ?_).append (ihb hwb rng kb kc x _ ab ?_ ?_))))
  · rw [exitD_of_not_unit huc]; exact aj.tgt_two
  · exact (ab.stgt_comp hwb).cast (by omega) (by omega)
  · exact (aa.stgt_comp hwa).cast (by omega) (by omega)
  · rw [exitD_of_not_unit hua]; exact af.tgt_two
  · intro h
    obtain ⟨t0, t1, t2⟩ := hesc (.inl h)
    exact ⟨t0, t1.cast (by omega) rfl, t2.cast (by omega) rfl⟩
  · exact hexit.cast (by omega) (by omega)
  · rw [exitD_of_not_unit hub]; exact hexit.cast (by omega) (by omega)
  · intro h
    obtain ⟨t0, t1, t2⟩ := hesc (.inr h)
    exact ⟨t0, t1.cast (by omega) rfl, t2.cast (by omega) rfl⟩

/-! ### statements -/

theorem unit_of_isS {n : N} (h : isS n = true) (hl : leaves n = false) : isUnitNode n = true := by
  simp only [isS, Bool.or_eq_true] at h
  rcases h with h | h
  · exact h
  · rw [hl] at h; cases h

theorem not_unit_of_leaves {n : N} (hl : leaves n = true) : isUnitNode n = false := by
  cases n <;> simp_all [leaves, isUnitNode]

theorem unit_of_isPost {n : N} (h : isPost n = true) (hl : leaves n = false) : isUnitNode n = true := by
  cases n <;> simp_all [isPost, leaves, isUnitNode]

theorem ok_pre (h : N) {pc x : Nat} (hat : G.At pc (pre h) (preH x h))
    (ht : G.Tgt (pc + preLen h) x) : G.OkWin pc (preLen h) := by
  unfold pre preH at hat
  unfold preLen at ht ⊢
  cases hp : postName h with
  | none => exact OkWin.zero G pc
  | some y =>
    simp only [hp] at hat ht
    obtain ⟨a1, a2⟩ := hat.two_cons
    exact (ok_push2 a1 rfl rfl a2.tgt_one).append (ok_pop a2 (ht.cast (by omega) rfl))

theorem ok_cons (h t : N) (ihh : PComp G h) (iht : PComp G t) : PComp G (.cons h t) := by
  intro hw rng kb kc x pc hat hexit hesc
  simp only [wf, Bool.and_eq_true] at hw
  obtain ⟨⟨⟨hsh, hlt⟩, hwh⟩, hwt⟩ := hw
  have hex : exitD (.cons h t) = 1 := by simp [exitD, isUnitNode]
  have hext : exitD t = 1 := exitD_of_not_unit (isL_not_unit hlt)
  rw [hex] at hexit
  simp only [escapes, Bool.or_eq_true] at hesc
  cases hn : isNilL t <;> cases hl : leaves h
  · -- more statements follow, `h` leaves nothing
    have hsz : size rng (.cons h t) = preLen h + (size rng h + size rng t) := by simp [size, hn, hl]; omega
    rw [hsz] at hexit hesc ⊢
    simp only [comp, hts, hn, hl, Bool.false_eq_true, ↓reduceIte, List.nil_append, Nat.zero_add] at hat
    have hu := unit_of_isS hsh hl
    obtain ⟨ap, hat⟩ := hat.spre_cons
    obtain ⟨ah, at_⟩ := hat.scomp_cons
    refine (ok_pre h ap (ah.stgt_comp hwh)).append ((ihh hwh rng _ _ x _ ah ?_ ?_).append (iht hwt rng kb kc x _ at_ ?_ ?_))
    · rw [exitD_of_unit hu]; exact (at_.stgt_comp hwt).cast (by omega) (by omega)
    · intro he
      obtain ⟨t0, t1, t2⟩ := hesc (.inl he)
      exact ⟨t0, t1.cast (by omega) rfl, t2.cast (by omega) rfl⟩
    · rw [hext]; exact hexit.cast (by omega) rfl
    · intro he
      obtain ⟨t0, t1, t2⟩ := hesc (.inr he)
      exact ⟨t0, t1.cast (by omega) rfl, t2.cast (by omega) rfl⟩
  · -- more statements follow, `h` is an expression statement: its value is popped
    have hsz : size rng (.cons h t) = preLen h + (size rng h + (1 + size rng t)) := by simp [size, hn, hl]; omega
    rw [hsz] at hexit hesc ⊢
    simp only [comp, hts, hn, hl, Bool.false_eq_true, ↓reduceIte] at hat
    have hu := not_unit_of_leaves hl
    obtain ⟨ap, hat⟩ := hat.spre_cons
    obtain ⟨ah, hat⟩ := hat.scomp_cons
    obtain ⟨apop, at_⟩ := hat.one_cons
    refine (ok_pre h ap (ah.stgt_comp hwh)).append ((ihh hwh rng _ _ x _ ah ?_ ?_).append
      ((ok_pop apop ?_).append (iht hwt rng kb kc x _ at_ ?_ ?_)))
    · rw [exitD_of_not_unit hu]; exact apop.tgt_one
    · intro he
      obtain ⟨t0, t1, t2⟩ := hesc (.inl he)
      exact ⟨t0, t1.cast (by omega) rfl, t2.cast (by omega) rfl⟩
    · exact at_.stgt_comp hwt
    · rw [hext]; exact hexit.cast (by omega) rfl
    · intro he
      obtain ⟨t0, t1, t2⟩ := hesc (.inr he)
      exact ⟨t0, t1.cast (by omega) rfl, t2.cast (by omega) rfl⟩
  · -- last statement, not an expression: `Nil` is the block's value
    have hsz : size rng (.cons h t) = preLen h + (size rng h + 1) := by simp [size, hn, hl]; omega
    rw [hsz] at hexit hesc ⊢
    simp only [comp, hts, hn, hl, Bool.false_eq_true, ↓reduceIte] at hat
    have hu := unit_of_isS hsh hl
    obtain ⟨ap, hat⟩ := hat.spre_cons
    obtain ⟨ah, an⟩ := hat.scomp_cons
    refine (ok_pre h ap (ah.stgt_comp hwh)).append ((ihh hwh rng _ _ x _ ah ?_ ?_).append (ok_push1 an rfl rfl ?_))
    · rw [exitD_of_unit hu]; exact an.tgt_one
    · intro he
      obtain ⟨t0, t1, t2⟩ := hesc (.inl he)
      exact ⟨t0, t1.cast (by omega) rfl, t2.cast (by omega) rfl⟩
    · exact hexit.cast (by omega) rfl
  · -- last statement, an expression: its value is the block's value
    have hsz : size rng (.cons h t) = preLen h + size rng h := by simp [size, hn, hl]
    rw [hsz] at hexit hesc ⊢
    simp only [comp, hts, hn, hl, ↓reduceIte, List.append_nil, Nat.add_zero] at hat
    have hu := not_unit_of_leaves hl
    obtain ⟨ap, ah⟩ := hat.spre_cons
    refine (ok_pre h ap (ah.stgt_comp hwh)).append (ihh hwh rng _ _ x _ ah ?_ ?_)
    · rw [exitD_of_not_unit hu]; exact hexit.cast (by omega) rfl
    · intro he
      obtain ⟨t0, t1, t2⟩ := hesc (.inl he)
      exact ⟨t0, t1.cast (by omega) rfl, t2.cast (by omega) rfl⟩

/-- `x := e` and `x = e` -/
theorem ok_store_of (e : N) (y : String) (ih : PComp G e) (hwe : wf e = true) (hxe : escapes e = false)
    (hee : isE e = true) {rng : Bool} {pc x : Nat}
    (hat : G.At pc (comp 0 0 rng e ++ two (.storeG y)) (hts rng x e ++ r2 (x + 1))) (hexit : G.Tgt (pc + (size rng e + 2)) x) :
    G.OkWin pc (size rng e + 2) := by
  obtain ⟨ae, as⟩ := hat.scomp_cons
  exact (use_expr ih hwe hxe hee ae as.tgt_two).append (ok_store as (hexit.cast (by omega) rfl))

theorem ok_var (y : String) (e : N) (ih : PComp G e) : PComp G (.var y e) := by
  intro hw rng kb kc x pc hat hexit _
  simp only [wf, Bool.and_eq_true, Bool.not_eq_true'] at hw
  have hex : exitD (.var y e) = 0 := by simp [exitD, isUnitNode]
  have hsz : size rng (.var y e) = size rng e + 2 := by simp [size]
  rw [hsz, hex] at hexit
  simp only [comp, hts] at hat
  rw [hsz]
  exact ok_store_of e y ih hw.2 hw.1.2 hw.1.1 hat hexit

theorem ok_assign (y : String) (op : AssignOp) (e : N) (ih : PComp G e) : PComp G (.assign y op e) := by
  intro hw rng kb kc x pc hat hexit _
  simp only [wf, Bool.and_eq_true, Bool.not_eq_true'] at hw
  have hex : exitD (.assign y op e) = 0 := by simp [exitD, isUnitNode]
  rw [hex] at hexit
  by_cases h1 : op = .set
  · have hsz : size rng (.assign y op e) = size rng e + 2 := by simp [size, h1]
    rw [hsz] at hexit ⊢
    simp only [comp, hts, h1, ↓reduceIte] at hat
    exact ok_store_of e y ih hw.2 hw.1.2 hw.1.1 hat hexit
  · have hsz : size rng (.assign y op e) = 2 + (size rng e + (2 + 2)) := by simp [size, h1]; omega
    rw [hsz] at hexit ⊢
    simp only [comp, hts, h1, ↓reduceIte, List.append_assoc] at hat
    obtain ⟨al, hat⟩ := hat.two_cons
    obtain ⟨ae, hat⟩ := hat.scomp_cons
    obtain ⟨ab, as⟩ := hat.two_cons
    refine (ok_push2 al rfl rfl (ae.stgt_comp hw.2)).append ((use_expr ih hw.2 hw.1.2 hw.1.1 ae ?_).append
      ((ok_bin ab (i := .binary (assignK op)) rfl rfl ?_).append (ok_store as (hexit.cast (by omega) (by omega)))))
    · exact ab.tgt_two.cast (by omega) (by omega)
    · exact as.tgt_two

theorem ok_postfix (y : String) (inc : Bool) : PComp G (.postfix y inc) := by
  intro _ rng kb kc x pc hat hexit _
  have hex : exitD (.postfix y inc) = 0 := by simp [exitD, isUnitNode]
  have hsz : size rng (.postfix y inc) = 2 + (2 + (2 + 2)) := by simp [size]
  rw [hsz, hex] at hexit
  simp only [comp, hts, List.append_assoc] at hat
  rw [hsz]
  obtain ⟨al, hat⟩ := hat.two_cons
  obtain ⟨ac, hat⟩ := hat.two_cons
  obtain ⟨ab, as⟩ := hat.two_cons
  exact (ok_push2 al rfl rfl ac.tgt_two).append ((ok_push2 ac rfl rfl (ab.tgt_two.cast rfl (by omega))).append
    ((ok_bin ab (i := .binary 1) rfl rfl as.tgt_two).append (ok_store as (hexit.cast (by omega) (by omega)))))

/-- `break`: a forward jump to the enclosing loop's exit; when that loop is a range loop, `PopTop`
    drops its iterator first, so the jump leaves with the height the LOOP was entered with -/
theorem ok_break : PComp G .break_ := by
  intro _ rng kb kc x pc hat _ hesc
  obtain ⟨t0, t1, _⟩ := hesc rfl
  cases rng
  · simp only [comp, hts, Bool.false_eq_true, ↓reduceIte, List.nil_append] at hat
    have hsz : size false .break_ = 2 := by simp [size]
    rw [hsz] at t1 ⊢
    exact okwin_jf hat (t1.cast (by omega) (by simp [rngD]))
  · simp only [comp, hts, ↓reduceIte] at hat
    have hsz : size true .break_ = 1 + 2 := by simp [size]
    rw [hsz] at t1 ⊢
    simp only [rngD, ↓reduceIte] at t0 t1
    obtain ⟨ap, aj⟩ := hat.one_cons
    exact (okwin_fall1 ap (a := 1) (b := 0) rfl rfl t0 (aj.tgt_two.cast rfl (by omega))).append
      (okwin_jf aj (t1.cast (by omega) rfl))

/-- `continue`: a forward jump to the backward jump of the enclosing loop, with the height the
    statement was entered with (in a range loop: the iterator stays) -/
theorem ok_continue : PComp G .continue_ := by
  intro _ rng kb kc x pc hat _ hesc
  simp only [comp, hts] at hat
  obtain ⟨_, _, t2⟩ := hesc rfl
  exact okwin_jf hat (t2.cast (by simp [size]; omega) rfl)

/-! ### loops without iterator: the body's value is popped, the backward jump returns to the
    height the loop was entered with; `break` and `continue` arrive with that same height -/

theorem ok_forcond (c b : N) (ihc : PComp G c) (ihb : PComp G b) : PComp G (.forcond c b) := by
  intro hw rng kb kc x pc hat hexit _
  simp only [wf, Bool.and_eq_true, Bool.not_eq_true'] at hw
  obtain ⟨⟨⟨⟨hec, hbb⟩, hxc⟩, hwc⟩, hwb⟩ := hw
  have hex : exitD (.forcond c b) = 0 := by simp [exitD, isUnitNode]
  have hsz : size rng (.forcond c b) = size false c + (2 + (size false b + (1 + (2 + 1)))) := by simp [size]; omega
  rw [hsz, hex] at hexit
  simp only [comp, hts, List.append_assoc] at hat
  rw [hsz]
  obtain ⟨ac, hat⟩ := hat.scomp_cons
  obtain ⟨aj, hat⟩ := hat.two_cons
  obtain ⟨ab, hat⟩ := hat.scomp_cons
  obtain ⟨ap, hat⟩ := hat.one_cons
  obtain ⟨ajb, an⟩ := hat.two_cons
  refine (use_expr ihc hwc hxc hec ac aj.tgt_two).append
    ((okwin_cond aj (i := .pjf (size false b + 6)) (d := size false b + 6) rfl rfl (by omega) ?_ ?_).append
      ((ihb hwb false 3 1 x _ ab ?_ ?_).append ((ok_pop ap ajb.tgt_two).append
        ((okwin_jb ajb (by omega) ?_).append (okwin_fall1 an (a := 0) (b := 0) rfl rfl (by omega) ?_)))))
  · exact hexit.cast (by omega) (by omega)
  · exact (ab.stgt_comp hwb).cast rfl (by omega)
  · rw [exitD_of_not_unit (isBlock_not_unit hbb)]; exact ap.tgt_one
  · intro _
    exact ⟨by simp [rngD], an.tgt_one.cast (by omega) (by simp [rngD]), ajb.tgt_two.cast (by omega) rfl⟩
  · exact (ac.stgt_comp hwc).cast (by omega) rfl
  · exact hexit.cast (by omega) (by omega)

theorem ok_forever (b : N) (ihb : PComp G b) : PComp G (.forever b) := by
  intro hw rng kb kc x pc hat hexit _
  simp only [wf, Bool.and_eq_true] at hw
  obtain ⟨hbb, hwb⟩ := hw
  have hex : exitD (.forever b) = 0 := by simp [exitD, isUnitNode]
  have hsz : size rng (.forever b) = size false b + (1 + (2 + 1)) := by simp [size]
  rw [hsz, hex] at hexit
  simp only [comp, hts, List.append_assoc] at hat
  rw [hsz]
  obtain ⟨ab, hat⟩ := hat.scomp_cons
  obtain ⟨ap, hat⟩ := hat.one_cons
  obtain ⟨ajb, an⟩ := hat.two_cons
  refine (ihb hwb false 3 1 x _ ab ?_ ?_).append ((ok_pop ap ajb.tgt_two).append
    ((okwin_jb ajb (by omega) ?_).append (okwin_fall1 an (a := 0) (b := 0) rfl rfl (by omega) ?_)))
  · rw [exitD_of_not_unit (isBlock_not_unit hbb)]; exact ap.tgt_one
  · intro _
    exact ⟨by simp [rngD], an.tgt_one.cast (by omega) (by simp [rngD]), ajb.tgt_two.cast (by omega) rfl⟩
  · exact (ab.stgt_comp hwb).cast (by omega) rfl
  · exact hexit.cast (by omega) (by omega)

theorem ok_for3 (i c p b : N) (ihi : PComp G i) (ihc : PComp G c) (ihp : PComp G p) (ihb : PComp G b) :
    PComp G (.for3 i c p b) := by
  intro hw rng kb kc x pc hat hexit _
  simp only [wf, Bool.and_eq_true, Bool.not_eq_true'] at hw
  obtain ⟨⟨⟨⟨⟨⟨⟨⟨⟨⟨hii, hec⟩, hpp⟩, hbb⟩, hxi⟩, hxc⟩, hxp⟩, hwi⟩, hwc⟩, hwp⟩, hwb⟩ := hw
  have hex : exitD (.for3 i c p b) = 0 := by simp [exitD, isUnitNode]
  rw [hex] at hexit
  cases hl : leaves p
  · have hup := unit_of_isPost hpp hl
    have hsz : size rng (.for3 i c p b) = size false i + (size false c + (2 + (size false b + (1 + (size false p + 2))))) := by
      simp [size, hl]; omega
    rw [hsz] at hexit ⊢
    simp only [comp, hts, hl, Bool.false_eq_true, ↓reduceIte, List.append_nil, List.append_assoc, Nat.add_zero] at hat
    obtain ⟨ai, hat⟩ := hat.scomp_cons
    obtain ⟨ac, hat⟩ := hat.scomp_cons
    obtain ⟨aj, hat⟩ := hat.two_cons
    obtain ⟨ab, hat⟩ := hat.scomp_cons
    obtain ⟨ap, hat⟩ := hat.one_cons
    obtain ⟨app, ajb⟩ := hat.scomp_cons
    refine (use_operand ihi hwi hxi ai ?_).append ((use_expr ihc hwc hxc hec ac aj.tgt_two).append
      ((okwin_cond aj (i := .pjf (size false b + size false p + 5)) (d := size false b + size false p + 5) rfl rfl (by omega) ?_ ?_).append
        ((ihb hwb false (size false p + 3) 1 x _ ab ?_ ?_).append ((ok_pop ap (app.stgt_comp hwp)).append
          ((use_operand ihp hwp hxp app ?_).append (okwin_jb ajb (by omega) ?_))))))
    · rw [exitD_of_unit (isInit_unit hii)]; exact ac.stgt_comp hwc
    · exact hexit.cast (by omega) (by omega)
    · exact (ab.stgt_comp hwb).cast rfl (by omega)
    · rw [exitD_of_not_unit (isBlock_not_unit hbb)]; exact ap.tgt_one
    · intro _
      exact ⟨by simp [rngD], hexit.cast (by omega) (by simp [rngD]), (app.stgt_comp hwp).cast (by omega) rfl⟩
    · rw [exitD_of_unit hup]; exact ajb.tgt_two
    · exact (ac.stgt_comp hwc).cast (by omega) rfl
  · have hup := not_unit_of_leaves hl
    have hsz : size rng (.for3 i c p b) = size false i + (size false c + (2 + (size false b + (1 + (size false p + (1 + 2)))))) := by
      simp [size, hl]; omega
    rw [hsz] at hexit ⊢
    simp only [comp, hts, hl, ↓reduceIte, List.append_assoc] at hat
    obtain ⟨ai, hat⟩ := hat.scomp_cons
    obtain ⟨ac, hat⟩ := hat.scomp_cons
    obtain ⟨aj, hat⟩ := hat.two_cons
    obtain ⟨ab, hat⟩ := hat.scomp_cons
    obtain ⟨ap, hat⟩ := hat.one_cons
    obtain ⟨app, hat⟩ := hat.scomp_cons
    obtain ⟨ap2, ajb⟩ := hat.one_cons
    refine (use_operand ihi hwi hxi ai ?_).append ((use_expr ihc hwc hxc hec ac aj.tgt_two).append
      ((okwin_cond aj (i := .pjf (size false b + (size false p + 1) + 5)) (d := size false b + (size false p + 1) + 5) rfl rfl (by omega) ?_ ?_).append
        ((ihb hwb false (size false p + 1 + 3) 1 x _ ab ?_ ?_).append ((ok_pop ap (app.stgt_comp hwp)).append
          ((use_operand ihp hwp hxp app ?_).append ((ok_pop ap2 ajb.tgt_two).append (okwin_jb ajb (by omega) ?_)))))))
    · rw [exitD_of_unit (isInit_unit hii)]; exact ac.stgt_comp hwc
    · exact hexit.cast (by omega) (by omega)
    · exact (ab.stgt_comp hwb).cast rfl (by omega)
    · rw [exitD_of_not_unit (isBlock_not_unit hbb)]; exact ap.tgt_one
    · intro _
      exact ⟨by simp [rngD], hexit.cast (by omega) (by simp [rngD]), (app.stgt_comp hwp).cast (by omega) rfl⟩
    · rw [exitD_of_not_unit hup]; exact ap2.tgt_one
    · exact (ac.stgt_comp hwc).cast (by omega) rfl

/-! ### switch: the subject stays below everything (height `x + 1`) until `Swap 1; PopTop` -/

theorem ok_vals_cons (v vs : N) (ihv : PComp G v) (ihvs : PVals G vs) : PVals G (.cons v vs) := by
  intro hw rng k s pc hat hfall hmatch
  simp only [wfVals, Bool.and_eq_true, Bool.not_eq_true'] at hw
  obtain ⟨⟨⟨hev, hxv⟩, hwv⟩, hwvs⟩ := hw
  have hsz : valsLen rng (.cons v vs) = 2 + (size rng v + (2 + (2 + valsLen rng vs))) := by simp [valsLen]; omega
  rw [hsz] at hfall hmatch ⊢
  simp only [compVals, htsVals, List.append_assoc] at hat
  obtain ⟨acp, hat⟩ := hat.two_cons
  obtain ⟨av, hat⟩ := hat.scomp_cons
  obtain ⟨acm, hat⟩ := hat.two_cons
  obtain ⟨aj, avs⟩ := hat.two_cons
  obtain ⟨okvs, tvs⟩ := ihvs hwvs rng k s _ avs (hfall.cast (by omega) rfl) (hmatch.cast (by omega) rfl)
  refine ⟨(okwin_need2 acp (a := 1) (b := 1) rfl rfl (by omega) ?_).append ((use_expr ihv hwv hxv hev av ?_).append
    ((ok_bin acm (i := .compare 3) rfl rfl ?_).append
      ((okwin_cond aj (i := .pjt (valsLen rng vs + k + 2)) (d := valsLen rng vs + k + 2) rfl rfl (by omega) ?_ ?_).append okvs))),
    acp.tgt_two⟩
  · exact (av.stgt_comp hwv).cast rfl (by omega)
  · exact acm.tgt_two.cast rfl (by omega)
  · exact aj.tgt_two
  · exact hmatch.cast (by omega) (by omega)
  · exact tvs.cast (by omega) (by omega)

/-- an empty piece: nothing to check, and the place is what follows it -/
theorem ok_vals_empty (n : N) (hl : ∀ rng, valsLen rng n = 0) : PVals G n := by
  intro _ rng k s pc _ hfall _
  rw [hl] at hfall ⊢
  exact ⟨OkWin.zero G pc, hfall.cast (by omega) rfl⟩

theorem ok_cmpcase_case (vals body : N) (ihv : PVals G vals) : PCmpCase G (.case_ vals body) := by
  intro hw rng k a s pc hat hfall hbody
  simp only [wfCase, Bool.and_eq_true, Bool.not_eq_true'] at hw
  obtain ⟨⟨⟨hwv, _⟩, _⟩, hwb⟩ := hw
  simp only [compCmpCase, htsCmpCase, caseCmpLen, compBody, htsBody] at hat hfall hbody ⊢
  have ab : G.At (pc + valsLen rng vals + k) (comp 0 0 rng body) (hts rng (s + 1) body) := ⟨hbody.1.left, hbody.2.left⟩
  exact ihv hwv rng k s pc hat hfall (ab.stgt_comp hwb)

theorem ok_cmpcase_empty (n : N) (hl : ∀ rng, caseCmpLen rng n = 0) : PCmpCase G n := by
  intro _ rng k a s pc _ hfall _
  rw [hl] at hfall ⊢
  exact ⟨OkWin.zero G pc, hfall.cast (by omega) rfl⟩

theorem ok_cmp_cons (h t : N) (ihh : PCmpCase G h) (iht : PCmp G t) : PCmp G (.cons h t) := by
  intro hw rng before d s pc hat hfall hbodies
  simp only [wfCases, Bool.and_eq_true] at hw
  have hsz : cmpLen rng (.cons h t) = caseCmpLen rng h + cmpLen rng t := by simp [cmpLen]
  rw [hsz] at hfall hbodies ⊢
  simp only [compCmp, htsCmp, compBodies, htsBodies] at hat hbodies
  obtain ⟨ah, at_⟩ := hat.split (compCmpCase_length h _ rng) (htsCmpCase_length h rng _)
  obtain ⟨bh, bt⟩ := hbodies.split (compBody_length h _ rng) (htsBody_length h rng _)
  obtain ⟨okt, tt⟩ := iht hw.2 rng (before + caseBodyLen rng h) d s _ at_ (hfall.cast (by omega) rfl) (bt.cast (by omega))
  obtain ⟨okh, th⟩ := ihh hw.1 rng (cmpLen rng t + 2 + before) _ s pc ah tt (bh.cast (by omega))
  exact ⟨okh.append okt, th⟩

theorem ok_cmp_empty (n : N) (hl : ∀ rng, cmpLen rng n = 0) : PCmp G n := by
  intro _ rng before d s pc _ hfall _
  rw [hl] at hfall ⊢
  exact ⟨OkWin.zero G pc, hfall.cast (by omega) rfl⟩

theorem ok_body_case (vals body : N) (ihb : PComp G body) : PBody G (.case_ vals body) := by
  intro hw rng a s pc hat hexit
  simp only [wfCase, Bool.and_eq_true, Bool.not_eq_true'] at hw
  obtain ⟨⟨⟨_, hbb⟩, hxb⟩, hwb⟩ := hw
  have hsz : caseBodyLen rng (.case_ vals body) = size rng body + 2 := by simp [caseBodyLen]
  rw [hsz] at hexit ⊢
  simp only [compBody, htsBody] at hat
  obtain ⟨ab, aj⟩ := hat.scomp_cons
  refine (use_operand ihb hwb hxb ab ?_).append (okwin_jf aj (hexit.cast (by omega) rfl))
  rw [exitD_of_not_unit (isBlock_not_unit hbb)]; exact aj.tgt_two

theorem ok_bodies_cons (h t : N) (ihh : PBody G h) (iht : PBodies G t) : PBodies G (.cons h t) := by
  intro hw rng d s pc hat hexit
  simp only [wfCases, Bool.and_eq_true] at hw
  have hsz : bodiesLen rng (.cons h t) = caseBodyLen rng h + bodiesLen rng t := by simp [bodiesLen]
  rw [hsz] at hexit ⊢
  simp only [compBodies, htsBodies] at hat
  obtain ⟨ah, at_⟩ := hat.split (compBody_length h _ rng) (htsBody_length h rng _)
  exact (ihh hw.1 rng _ s pc ah (hexit.cast (by omega) rfl)).append (iht hw.2 rng d s _ at_ (hexit.cast (by omega) rfl))

theorem ok_dfltbody_default (body : N) (ihb : PComp G body) : PDfltBody G (.default_ body) := by
  intro hw rng s pc hat hexit
  simp only [wfCase, Bool.and_eq_true, Bool.not_eq_true'] at hw
  obtain ⟨⟨hbb, hxb⟩, hwb⟩ := hw
  simp only [compDfltBody, htsDfltBody, dfltBodyLen] at hat hexit ⊢
  refine use_operand ihb hwb hxb hat ?_
  rw [exitD_of_not_unit (isBlock_not_unit hbb)]; exact hexit

theorem ok_dflt_cons (h t : N) (ihh : PDfltBody G h) (iht : PDflt G t) : PDflt G (.cons h t) := by
  intro hw rng s pc hat hexit
  simp only [wfCases, Bool.and_eq_true] at hw
  simp only [compDflt, htsDflt, defLen] at hat hexit ⊢
  cases hd : isDefault h
  · simp only [hd, Bool.false_eq_true, ↓reduceIte] at hat hexit ⊢
    exact iht hw.2 rng s pc hat hexit
  · simp only [hd, ↓reduceIte] at hat hexit ⊢
    refine ⟨ihh hw.1 rng s pc hat hexit, ?_⟩
    cases h <;> simp [isDefault] at hd
    rename_i body
    simp only [wfCase, Bool.and_eq_true] at hw
    simp only [compDfltBody, htsDfltBody] at hat
    exact hat.stgt_comp hw.1.2

theorem ok_dflt_nil : PDflt G .nilL := by
  intro _ rng s pc hat hexit
  simp only [compDflt, htsDflt, defLen] at hat hexit ⊢
  exact ⟨ok_push1 hat rfl rfl hexit, hat.tgt_one⟩

theorem ok_switch (subj cases : N) (ihs : PComp G subj) (ihc : PCmp G cases) (ihb : PBodies G cases)
    (ihd : PDflt G cases) : PComp G (.switch subj cases) := by
  intro hw rng kb kc x pc hat hexit _
  simp only [wf, Bool.and_eq_true, Bool.not_eq_true'] at hw
  obtain ⟨⟨⟨⟨hes, hxs⟩, hws⟩, hwc⟩, _⟩ := hw
  have hex : exitD (.switch subj cases) = 1 := by simp [exitD, isUnitNode]
  have hsz : size rng (.switch subj cases) =
      size rng subj + (cmpLen rng cases + (2 + (bodiesLen rng cases + (defLen rng cases + (2 + 1))))) := by simp [size]; omega
  rw [hsz, hex] at hexit
  simp only [comp, hts, List.append_assoc] at hat
  rw [hsz]
  obtain ⟨as, hat⟩ := hat.scomp_cons
  obtain ⟨ac, hat⟩ := hat.split (compCmp_length cases _ rng) (htsCmp_length cases rng _)
  obtain ⟨aj, hat⟩ := hat.two_cons
  obtain ⟨ab, hat⟩ := hat.split (compBodies_length cases _ rng) (htsBodies_length cases rng _)
  obtain ⟨ad, hat⟩ := hat.split (compDflt_length cases rng) (htsDflt_length cases rng _)
  obtain ⟨asw, apop⟩ := hat.two_cons
  obtain ⟨okc, tc⟩ := ihc hwc rng 0 (defLen rng cases) x _ ac aj.tgt_two (ab.cast (by omega))
  obtain ⟨okd, td⟩ := ihd hwc rng (x + 1) _ ad (asw.tgt_two.cast rfl (by omega))
  refine (use_expr ihs hws hxs hes as tc).append (okc.append ((okwin_jf aj ?_).append
    ((ihb hwc rng (defLen rng cases) (x + 1) _ ab ?_).append (okd.append
      ((okwin_need2 asw (a := 2) (b := 0) rfl rfl (by omega) ?_).append
        (okwin_fall1 apop (a := 1) (b := 0) rfl rfl (by omega) ?_))))))
  · exact td.cast (by omega) rfl
  · exact asw.tgt_two.cast (by omega) (by omega)
  · exact apop.tgt_one.cast rfl (by omega)
  · exact hexit.cast (by omega) (by omega)

/-! ### F6: list literals, index reads, item assignment -/

theorem ok_items_cons (v vs : N) (ihv : PComp G v) (ihvs : PItems G vs) : PItems G (.cons v vs) := by
  intro hw rng s pc hat hexit
  simp only [wfVals, Bool.and_eq_true, Bool.not_eq_true'] at hw
  obtain ⟨⟨⟨hev, hxv⟩, hwv⟩, hwvs⟩ := hw
  have hsz : itemsLen rng (.cons v vs) = size rng v + itemsLen rng vs := by simp [itemsLen]
  have hcn : countItems (.cons v vs) = countItems vs + 1 := rfl
  rw [hsz, hcn] at hexit
  rw [hsz]
  simp only [compItems, htsItems] at hat
  obtain ⟨av, avs⟩ := hat.scomp_cons
  obtain ⟨okvs, tvs⟩ := ihvs hwvs rng (s + 1) _ avs (hexit.cast (by omega) (by omega))
  exact ⟨(use_expr ihv hwv hxv hev av tvs).append okvs, av.stgt_comp hwv⟩

theorem ok_items_empty (n : N) (hl : ∀ rng, itemsLen rng n = 0) (hc : countItems n = 0) : PItems G n := by
  intro _ rng s pc _ hexit
  rw [hl, hc] at hexit
  rw [hl]
  exact ⟨OkWin.zero G pc, hexit⟩

/-- `[e1, …, en]`: the items one above the other, `BuildList n` pops all of them and pushes the list -/
theorem ok_list (items : N) (ihi : PItems G items) : PComp G (.list items) := by
  intro hw rng kb kc x pc hat hexit _
  simp only [wf] at hw
  have hex : exitD (.list items) = 1 := by simp [exitD, isUnitNode]
  have hsz : size rng (.list items) = itemsLen rng items + 2 := by simp [size]
  rw [hsz, hex] at hexit
  simp only [comp, hts] at hat
  rw [hsz]
  obtain ⟨ai, ab⟩ := hat.split (compItems_length items rng) (htsItems_length items rng x)
  obtain ⟨oki, _⟩ := ihi hw rng x pc ai ab.tgt_two
  exact oki.append (okwin_fall2 ab (i := .buildList (countItems items)) (a := countItems items) (b := 1) rfl rfl (by omega)
    (hexit.cast (by omega) (by omega)))

/-- `e[i]`: `BinarySubscr` pops the index and the container, pushes the item -/
theorem ok_index (e i : N) (ihe : PComp G e) (ihi : PComp G i) : PComp G (.index e i) := by
  intro hw rng kb kc x pc hat hexit _
  simp only [wf, Bool.and_eq_true, Bool.not_eq_true'] at hw
  obtain ⟨⟨⟨⟨⟨hee, hei⟩, hxe⟩, hxi⟩, hwe⟩, hwi⟩ := hw
  have hex : exitD (.index e i) = 1 := by simp [exitD, isUnitNode]
  have hsz : size rng (.index e i) = size rng e + (size rng i + 1) := by simp [size]; omega
  rw [hsz, hex] at hexit
  simp only [comp, hts, List.append_assoc] at hat
  rw [hsz]
  obtain ⟨ae, hat⟩ := hat.scomp_cons
  obtain ⟨ai, ab⟩ := hat.scomp_cons
  exact (use_expr ihe hwe hxe hee ae (ai.stgt_comp hwi)).append
    ((use_expr ihi hwi hxi hei ai (ab.tgt_one.cast rfl (by omega))).append
      (okwin_fall1 ab (i := .binarySubscr) (a := 2) (b := 1) rfl rfl (by omega) (hexit.cast (by omega) (by omega))))

/-- `o[i] = v`: `StoreSubscr` pops index, container and right-hand side, pushes nothing -/
theorem ok_setitem_set (o i v : N) (iho : PComp G o) (ihi : PComp G i) (ihv : PComp G v) :
    PComp G (.setitem .set o i v) := by
  intro hw rng kb kc x pc hat hexit _
  simp only [wf, Bool.and_eq_true, Bool.not_eq_true'] at hw
  obtain ⟨⟨⟨⟨⟨⟨⟨⟨heo, hei⟩, hev⟩, hxo⟩, hxi⟩, hxv⟩, hwo⟩, hwi⟩, hwv⟩ := hw
  have hex : exitD (.setitem .set o i v) = 0 := by simp [exitD, isUnitNode]
  have hsz : size rng (.setitem .set o i v) = size rng v + (size rng o + (size rng i + 1)) := by simp [size]; omega
  rw [hsz, hex] at hexit
  simp only [comp, hts, ↓reduceIte, List.append_assoc] at hat
  rw [hsz]
  obtain ⟨av, hat⟩ := hat.scomp_cons
  obtain ⟨ao, hat⟩ := hat.scomp_cons
  obtain ⟨ai, ast⟩ := hat.scomp_cons
  exact (use_expr ihv hwv hxv hev av (ao.stgt_comp hwo)).append
    ((use_expr iho hwo hxo heo ao ((ai.stgt_comp hwi).cast rfl (by omega))).append
      ((use_expr ihi hwi hxi hei ai (ast.tgt_one.cast rfl (by omega))).append
        (okwin_fall1 ast (i := .storeSubscr) (a := 3) (b := 0) rfl rfl (by omega) (hexit.cast (by omega) (by omega)))))

/-- `o[i] op= v`: container, index, the current item, the right-hand side, the operation, then
    container and index AGAIN, then `StoreSubscr` -/
theorem ok_setitem_op (op : AssignOp) (hop : op ≠ .set) (o i v : N) (iho : PComp G o) (ihi : PComp G i) (ihv : PComp G v) :
    PComp G (.setitem op o i v) := by
  intro hw rng kb kc x pc hat hexit _
  simp only [wf, Bool.and_eq_true, Bool.not_eq_true'] at hw
  obtain ⟨⟨⟨⟨⟨⟨⟨⟨heo, hei⟩, hev⟩, hxo⟩, hxi⟩, hxv⟩, hwo⟩, hwi⟩, hwv⟩ := hw
  have hex : exitD (.setitem op o i v) = 0 := by simp [exitD, isUnitNode]
  have hsz : size rng (.setitem op o i v) =
      size rng o + (size rng i + (1 + (size rng v + (2 + (size rng o + (size rng i + 1)))))) := by simp [size, hop]; omega
  rw [hsz, hex] at hexit
  simp only [comp, hts, hop, ↓reduceIte, List.append_assoc] at hat
  rw [hsz]
  obtain ⟨ao, hat⟩ := hat.scomp_cons
  obtain ⟨ai, hat⟩ := hat.scomp_cons
  obtain ⟨asb, hat⟩ := hat.one_cons
  obtain ⟨av, hat⟩ := hat.scomp_cons
  obtain ⟨abn, hat⟩ := hat.two_cons
  obtain ⟨ao2, hat⟩ := hat.scomp_cons
  obtain ⟨ai2, ast⟩ := hat.scomp_cons
  exact (use_expr iho hwo hxo heo ao (ai.stgt_comp hwi)).append
    ((use_expr ihi hwi hxi hei ai (asb.tgt_one.cast rfl (by omega))).append
      ((okwin_fall1 asb (i := .binarySubscr) (a := 2) (b := 1) rfl rfl (by omega) ((av.stgt_comp hwv).cast rfl (by omega))).append
        ((use_expr ihv hwv hxv hev av (abn.tgt_two.cast rfl (by omega))).append
          ((ok_bin abn (i := .binary (assignK op)) rfl rfl (ao2.stgt_comp hwo)).append
            ((use_expr iho hwo hxo heo ao2 ((ai2.stgt_comp hwi).cast rfl (by omega))).append
              ((use_expr ihi hwi hxi hei ai2 (ast.tgt_one.cast rfl (by omega))).append
                (okwin_fall1 ast (i := .storeSubscr) (a := 3) (b := 0) rfl rfl (by omega) (hexit.cast (by omega) (by omega)))))))))

/-! ### F6: range loops.  The iterator sits in the loop's stack slot: the body runs ONE ABOVE the
    height the loop was entered with; `ForIter`'s exhaustion edge and `break` (`PopTop` first) both
    arrive after the loop with the entry height, `continue` and the end of the body at the backward
    jump with the iterator still there -/

/-- the `StoreGlobal`s of the loop names: each pops one of the values `ForIter` pushed -/
theorem ok_stores (xs : List String) : ∀ {pc y : Nat}, G.At pc (stores xs) (storesH y xs) →
    G.Tgt (pc + 2 * xs.length) y → G.OkWin pc (2 * xs.length) ∧ G.Tgt pc (y + xs.length) := by
  induction xs with
  | nil =>
    intro pc y _ ht
    exact ⟨OkWin.zero G pc, ht.cast (by simp) (by simp)⟩
  | cons x xs ih =>
    intro pc y hat ht
    simp only [stores, storesH] at hat
    obtain ⟨a1, a2⟩ := hat.two_cons
    obtain ⟨ok2, t2⟩ := ih a2 (ht.cast (by simp only [List.length_cons]; omega) rfl)
    exact ⟨((ok_store a1 t2).append ok2).cast (by simp only [List.length_cons]; omega),
      a1.tgt_two.cast rfl (by simp only [List.length_cons]; omega)⟩

/-- the four range-loop forms (`m` = `ForIter`'s second operand, `k` = the number of loop values
    it pushes = the number of `StoreGlobal`s) -/
theorem ok_rangeloop (c b : N) (names : List String) (m D1 D2 : Nat) (rng : Bool)
    (hp : forIterPush m = some names.length)
    (hD1 : D1 = 3 + 2 * names.length + size true b + 3) (hD2 : D2 = 3 + 2 * names.length + size true b + 1)
    (ihc : PComp G c) (ihb : PComp G b) (hwc : wf c = true) (hwb : wf b = true) (hxc : escapes c = false)
    (hec : isE c = true) (hbb : isBlock b = true) {pc x : Nat}
    (hat : G.At pc (comp 0 0 rng c ++ (one .getIter ++ (three (.forIter D1 m) ++ (stores names ++
        (comp 3 1 true b ++ (one .popTop ++ two (.jb D2)))))))
      (hts rng x c ++ (r1 (x + 1) ++ (r3 (x + 1) ++ (storesH (x + 1) names ++
        (hts true (x + 1) b ++ (r1 (x + 2) ++ r2 (x + 1))))))))
    (hexit : G.Tgt (pc + (size rng c + (1 + (3 + (2 * names.length + (size true b + (1 + 2))))))) x) :
    G.OkWin pc (size rng c + (1 + (3 + (2 * names.length + (size true b + (1 + 2)))))) := by
  subst hD1 hD2
  obtain ⟨ac, hat⟩ := hat.scomp_cons
  obtain ⟨ag, hat⟩ := hat.one_cons
  obtain ⟨af, hat⟩ := hat.three_cons
  obtain ⟨as, hat⟩ := hat.split (stores_length names) (storesH_length (x + 1) names)
  obtain ⟨ab, hat⟩ := hat.scomp_cons
  obtain ⟨ap, ajb⟩ := hat.one_cons
  obtain ⟨oks, ts⟩ := ok_stores names as (ab.stgt_comp hwb)
  refine (use_expr ihc hwc hxc hec ac ag.tgt_one).append
    ((okwin_fall1 ag (i := .getIter) (a := 1) (b := 1) rfl rfl (by omega) (af.tgt_three.cast rfl (by omega))).append
      ((okwin_forIter af (i := .forIter (3 + 2 * names.length + size true b + 3) m)
        (d := 3 + 2 * names.length + size true b + 3) (m := m) rfl rfl hp (by omega) ?_ ts).append
        (oks.append ((ihb hwb true 3 1 (x + 1) _ ab ?_ ?_).append ((ok_pop ap ajb.tgt_two).append
          (okwin_jb ajb (by omega) ?_))))))
  · exact hexit.cast (by omega) (by omega)
  · rw [exitD_of_not_unit (isBlock_not_unit hbb)]; exact ap.tgt_one
  · intro _
    exact ⟨by simp [rngD], hexit.cast (by omega) (by simp [rngD]), ajb.tgt_two.cast (by omega) rfl⟩
  · exact af.tgt_three.cast (by omega) rfl

theorem forIterPush_rngNames (k v : String) : forIterPush (rngNames k v).length = some (rngNames k v).length := by
  unfold rngNames
  by_cases h1 : (k == "") = true <;> by_cases h2 : (v == "") = true <;> simp [h1, h2, forIterPush]

theorem ok_forrange (k v : String) (c b : N) (ihc : PComp G c) (ihb : PComp G b) : PComp G (.forrange k v c b) := by
  intro hw rng kb kc x pc hat hexit _
  simp only [wf, Bool.and_eq_true, Bool.not_eq_true'] at hw
  obtain ⟨⟨⟨⟨hec, hbb⟩, hxc⟩, hwc⟩, hwb⟩ := hw
  have hex : exitD (.forrange k v c b) = 0 := by simp [exitD, isUnitNode]
  have hsz : size rng (.forrange k v c b) =
      size rng c + (1 + (3 + (2 * (rngNames k v).length + (size true b + (1 + 2))))) := by simp [size]; omega
  rw [hsz, hex] at hexit
  simp only [comp, hts, List.append_assoc] at hat
  rw [hsz]
  exact ok_rangeloop c b (rngNames k v) _ _ _ rng (forIterPush_rngNames k v) rfl rfl ihc ihb hwc hwb hxc hec hbb hat hexit

theorem ok_forin (v : String) (c b : N) (ihc : PComp G c) (ihb : PComp G b) : PComp G (.forin v c b) := by
  intro hw rng kb kc x pc hat hexit _
  simp only [wf, Bool.and_eq_true, Bool.not_eq_true'] at hw
  obtain ⟨⟨⟨⟨hec, hbb⟩, hxc⟩, hwc⟩, hwb⟩ := hw
  have hex : exitD (.forin v c b) = 0 := by simp [exitD, isUnitNode]
  have hsz : size rng (.forin v c b) =
      size rng c + (1 + (3 + (2 * [v].length + (size true b + (1 + 2))))) := by simp [size]; omega
  rw [hsz, hex] at hexit
  simp only [comp, hts, List.append_assoc] at hat
  rw [hsz]
  exact ok_rangeloop c b [v] 3 _ _ rng rfl (by simp) (by simp) ihc ihb hwc hwb hxc hec hbb hat hexit

/-! ### the structural induction -/

theorem ok_leaf1 (n : N) (i : FIns) (hc : ∀ rng kb kc, comp kb kc rng n = one i) (hh : ∀ rng x, hts rng x n = r1 x)
    (hk : (insOf i).kind = .fall 0 1) (hs : (insOf i).size = 1) (hsz : ∀ rng, size rng n = 1) (hu : isUnitNode n = false) :
    PComp G n := by
  intro _ rng kb kc x pc hat hexit _
  rw [hc, hh] at hat
  rw [hsz, exitD_of_not_unit hu] at hexit
  rw [hsz]
  exact ok_push1 hat hk hs hexit

theorem ok_leaf2 (n : N) (i : FIns) (hc : ∀ rng kb kc, comp kb kc rng n = two i) (hh : ∀ rng x, hts rng x n = r2 x)
    (hk : (insOf i).kind = .fall 0 1) (hs : (insOf i).size = 2) (hsz : ∀ rng, size rng n = 2) (hu : isUnitNode n = false) :
    PComp G n := by
  intro _ rng kb kc x pc hat hexit _
  rw [hc, hh] at hat
  rw [hsz, exitD_of_not_unit hu] at hexit
  rw [hsz]
  exact ok_push2 hat hk hs hexit

/-- `block`, `prog`, `expr`: the code of the wrapped node -/
theorem ok_wrap (n s : N) (ih : PComp G s) (hc : ∀ rng kb kc, comp kb kc rng n = comp kb kc rng s)
    (hh : ∀ rng x, hts rng x n = hts rng x s)
    (hsz : ∀ rng, size rng n = size rng s) (hw : wf n = true → wf s = true ∧ isUnitNode s = false) (hu : isUnitNode n = false)
    (he : escapes n = escapes s) : PComp G n := by
  intro hwn rng kb kc x pc hat hexit hesc
  rw [hc, hh] at hat
  rw [hsz, exitD_of_not_unit hu] at hexit
  rw [hsz, he] at hesc
  rw [hsz]
  refine ih (hw hwn).1 rng kb kc x pc hat ?_ hesc
  rw [exitD_of_not_unit (hw hwn).2]; exact hexit

/-- the eight list-shaped statements are vacuous on a node that is neither a list nor a case -/
macro "sok_rest" : tactic =>
  `(tactic| (refine ⟨?_, by intro hw; simp [wfVals] at hw, by intro hw; simp [wfCase] at hw,
      by intro hw; simp [wfCases] at hw, by intro hw; simp [wfCase] at hw, by intro hw; simp [wfCases] at hw,
      by intro hw; simp [wfCase] at hw, by intro hw; simp [wfCases] at hw, by intro hw; simp [wfVals] at hw⟩))

/-- every piece of the code of every node of the fragment passes `check`'s per-offset test,
    wherever it sits, provided its exits are legal targets with the right heights -/
theorem ok_all (G : SCtx) (n : N) :
    PComp G n ∧ PVals G n ∧ PCmpCase G n ∧ PCmp G n ∧ PBody G n ∧ PBodies G n ∧ PDfltBody G n ∧ PDflt G n ∧ PItems G n := by
  induction n with
  | cons h t ihh iht =>
    exact ⟨ok_cons h t ihh.1 iht.1, ok_vals_cons h t ihh.1 iht.2.1, by intro hw; simp [wfCase] at hw,
      ok_cmp_cons h t ihh.2.2.1 iht.2.2.2.1, by intro hw; simp [wfCase] at hw,
      ok_bodies_cons h t ihh.2.2.2.2.1 iht.2.2.2.2.2.1, by intro hw; simp [wfCase] at hw,
      ok_dflt_cons h t ihh.2.2.2.2.2.2.1 iht.2.2.2.2.2.2.2.1, ok_items_cons h t ihh.1 iht.2.2.2.2.2.2.2.2⟩
  | nilL =>
    refine ⟨ok_leaf1 _ .nil_ (fun _ _ _ => rfl) (fun _ _ => rfl) rfl rfl (fun _ => rfl) rfl, ok_vals_empty _ (fun _ => rfl),
      by intro hw; simp [wfCase] at hw, ok_cmp_empty _ (fun _ => rfl), by intro hw; simp [wfCase] at hw, ?_,
      by intro hw; simp [wfCase] at hw, ok_dflt_nil, ok_items_empty _ (fun _ => rfl) rfl⟩
    intro _ rng d s pc _ _
    exact OkWin.zero G pc
  | case_ vals body ihv ihb =>
    refine ⟨by intro hw; simp [wf] at hw, by intro hw; simp [wfVals] at hw, ok_cmpcase_case vals body ihv.2.1,
      by intro hw; simp [wfCases] at hw, ok_body_case vals body ihb.1, by intro hw; simp [wfCases] at hw, ?_,
      by intro hw; simp [wfCases] at hw, by intro hw; simp [wfVals] at hw⟩
    intro _ rng s pc _ _
    exact OkWin.zero G pc
  | default_ body ihb =>
    refine ⟨by intro hw; simp [wf] at hw, by intro hw; simp [wfVals] at hw, ok_cmpcase_empty _ (fun _ => rfl),
      by intro hw; simp [wfCases] at hw, ?_, by intro hw; simp [wfCases] at hw, ok_dfltbody_default body ihb.1,
      by intro hw; simp [wfCases] at hw, by intro hw; simp [wfVals] at hw⟩
    intro _ rng a s pc _ _
    exact OkWin.zero G pc
  | nilLit => sok_rest; exact ok_leaf1 _ .nil_ (fun _ _ _ => rfl) (fun _ _ => rfl) rfl rfl (fun _ => rfl) rfl
  | none_ => sok_rest; exact ok_leaf1 _ .nil_ (fun _ _ _ => rfl) (fun _ _ => rfl) rfl rfl (fun _ => rfl) rfl
  | bool b =>
    sok_rest
    cases b
    · exact ok_leaf1 _ .false_ (fun _ _ _ => rfl) (fun _ _ => rfl) rfl rfl (fun _ => rfl) rfl
    · exact ok_leaf1 _ .true_ (fun _ _ _ => rfl) (fun _ _ => rfl) rfl rfl (fun _ => rfl) rfl
  | int i => sok_rest; exact ok_leaf2 _ (.constInt i) (fun _ _ _ => rfl) (fun _ _ => rfl) rfl rfl (fun _ => rfl) rfl
  | str s => sok_rest; exact ok_leaf2 _ (.constStr s) (fun _ _ _ => rfl) (fun _ _ => rfl) rfl rfl (fun _ => rfl) rfl
  | id y => sok_rest; exact ok_leaf2 _ (.loadG y) (fun _ _ _ => rfl) (fun _ _ => rfl) rfl rfl (fun _ => rfl) rfl
  | «infix» op l r ihl ihr =>
    sok_rest
    by_cases hand : op = .and
    · subst hand; exact ok_and l r ihl.1 ihr.1
    · by_cases hor : op = .or
      · subst hor; exact ok_or l r ihl.1 ihr.1
      · exact ok_infix op l r ihl.1 ihr.1 hand hor
  | neg e ih =>
    sok_rest
    intro hw rng kb kc x pc hat hexit _
    simp only [wf, Bool.and_eq_true, Bool.not_eq_true'] at hw
    have hsz : size rng (.neg e) = size rng e + 1 := by simp [size]
    have hex : exitD (.neg e) = 1 := by simp [exitD, isUnitNode]
    rw [hsz, hex] at hexit
    simp only [comp, hts] at hat
    rw [hsz]
    exact ok_unary e .unaryNeg rfl rfl ih.1 hw.2 hw.1.2 hw.1.1 hat hexit
  | not e ih =>
    sok_rest
    intro hw rng kb kc x pc hat hexit _
    simp only [wf, Bool.and_eq_true, Bool.not_eq_true'] at hw
    have hsz : size rng (.not e) = size rng e + 1 := by simp [size]
    have hex : exitD (.not e) = 1 := by simp [exitD, isUnitNode]
    rw [hsz, hex] at hexit
    simp only [comp, hts] at hat
    rw [hsz]
    exact ok_unary e .unaryNot rfl rfl ih.1 hw.2 hw.1.2 hw.1.1 hat hexit
  | tern c a b ihc iha ihb =>
    sok_rest
    intro hw rng kb kc x pc hat hexit hesc
    simp only [wf, Bool.and_eq_true, Bool.not_eq_true'] at hw
    obtain ⟨⟨⟨⟨⟨⟨⟨⟨hec, hea⟩, heb⟩, hxc⟩, _⟩, _⟩, hwc⟩, hwa⟩, hwb⟩ := hw
    have hsz : size rng (.tern c a b) = size rng c + (2 + (size rng a + (2 + size rng b))) := by simp [size]; omega
    have hex : exitD (.tern c a b) = 1 := by simp [exitD, isUnitNode]
    rw [hsz, hex] at hexit
    rw [hsz] at hesc
    simp only [comp, hts, List.append_assoc] at hat
    rw [hsz]
    refine ok_cond c a b ihc.1 iha.1 ihb.1 hwc hwa hwb hxc (isE_not_unit hec) (isE_not_unit hea) (isE_not_unit heb)
      hat hexit ?_
    intro h
    exact hesc (by simp only [escapes, Bool.or_eq_true]; rcases h with h | h <;> simp [h])
  | if_ c a b ihc iha ihb =>
    sok_rest
    intro hw rng kb kc x pc hat hexit hesc
    simp only [wf, Bool.and_eq_true, Bool.not_eq_true'] at hw
    obtain ⟨⟨⟨⟨⟨⟨hec, hba⟩, heb⟩, hxc⟩, hwc⟩, hwa⟩, hwb⟩ := hw
    have hsz : size rng (.if_ c a b) = size rng c + (2 + (size rng a + (2 + size rng b))) := by simp [size]; omega
    have hex : exitD (.if_ c a b) = 1 := by simp [exitD, isUnitNode]
    rw [hsz, hex] at hexit
    rw [hsz] at hesc
    simp only [comp, hts, List.append_assoc] at hat
    rw [hsz]
    refine ok_cond c a b ihc.1 iha.1 ihb.1 hwc hwa hwb hxc (isE_not_unit hec) (isBlock_not_unit hba)
      (isElse_not_unit heb) hat hexit ?_
    intro h
    exact hesc (by simp only [escapes, Bool.or_eq_true]; rcases h with h | h <;> simp [h])
  | block s ih =>
    sok_rest
    refine ok_wrap _ s ih.1 (fun _ _ _ => by simp only [comp]) (fun _ _ => by simp only [hts]) (by simp [size]) ?_ rfl
      (by simp [escapes])
    intro hw
    simp only [wf, Bool.and_eq_true] at hw
    exact ⟨hw.2, isL_not_unit hw.1⟩
  | prog s ih =>
    sok_rest
    refine ok_wrap _ s ih.1 (fun _ _ _ => by simp only [comp]) (fun _ _ => by simp only [hts]) (by simp [size]) ?_ rfl
      (by simp [escapes])
    intro hw
    simp only [wf, Bool.and_eq_true] at hw
    exact ⟨hw.2, isL_not_unit hw.1.1⟩
  | expr e ih =>
    sok_rest
    refine ok_wrap _ e ih.1 (fun _ _ _ => by simp only [comp]) (fun _ _ => by simp only [hts]) (by simp [size]) ?_ rfl
      (by simp [escapes])
    intro hw
    simp only [wf, Bool.and_eq_true] at hw
    exact ⟨hw.2, isE_not_unit hw.1⟩
  | var y e ih => sok_rest; exact ok_var y e ih.1
  | assign y op e ih => sok_rest; exact ok_assign y op e ih.1
  | «postfix» y inc => sok_rest; exact ok_postfix y inc
  | break_ => sok_rest; exact ok_break
  | continue_ => sok_rest; exact ok_continue
  | forcond c b ihc ihb => sok_rest; exact ok_forcond c b ihc.1 ihb.1
  | forever b ihb => sok_rest; exact ok_forever b ihb.1
  | for3 i c p b ihi ihc ihp ihb => sok_rest; exact ok_for3 i c p b ihi.1 ihc.1 ihp.1 ihb.1
  | switch subj cases ihs ihc =>
    sok_rest; exact ok_switch subj cases ihs.1 ihc.2.2.2.1 ihc.2.2.2.2.2.1 ihc.2.2.2.2.2.2.2.1
  | list items ih => sok_rest; exact ok_list items ih.2.2.2.2.2.2.2.2
  | index e i ihe ihi => sok_rest; exact ok_index e i ihe.1 ihi.1
  | setitem op o i v iho ihi ihv =>
    sok_rest
    by_cases hop : op = .set
    · subst hop; exact ok_setitem_set o i v iho.1 ihi.1 ihv.1
    · exact ok_setitem_op op hop o i v iho.1 ihi.1 ihv.1
  | forrange k v c b ihc ihb => sok_rest; exact ok_forrange k v c b ihc.1 ihb.1
  | forin v c b ihc ihb => sok_rest; exact ok_forin v c b ihc.1 ihb.1
  | _ => sok_rest; intro hw; simp [wf] at hw

/-! ### a whole program -/

/-- the context of a whole program: its code, the heights of all its slots, one value at the end -/
def progCtx (p : N) (hfit : fitsSeq p = true) : SCtx where
  code := compSeq p
  H := hts false 0 p
  hend := some 1
  isMain := true
  hlen := by rw [hts_length, compSeq, comp_length]
  hmax := by
    intro x hx
    have := List.all_eq_true.mp hfit x hx
    simpa using this
  hendmax := by intro x h; cases h; simp [maxHeight]

/-! ### the heights stay within the syntactic nesting depth (`Bd` of `FragCertLemmas.lean`) -/

theorem Bd_r3 (h k : Nat) : Bd (r3 h) k ↔ h ≤ k := by simp [Bd, r3]

theorem Bd_storesH (xs : List String) (y k : Nat) (hk : y + xs.length ≤ k) : Bd (storesH y xs) k := by
  induction xs with
  | nil => simp [storesH, Bd]
  | cons x xs ih =>
    simp only [storesH, Bd_append, Bd_r2]
    simp only [List.length_cons] at hk
    exact ⟨by omega, ih (by omega)⟩

theorem rngNames_length_le (k v : String) : (rngNames k v).length ≤ 2 := by
  unfold rngNames
  split <;> split <;> simp

/-- the nine height lists of a node, bounded by its nesting depth -/
def DepthOK (n : N) : Prop :=
  (∀ rng x, Bd (hts rng x n) (x + depth n)) ∧ (∀ rng s, Bd (htsVals rng s n) (s + depth n)) ∧
  (∀ rng s, Bd (htsCmpCase rng s n) (s + depth n)) ∧ (∀ rng s, Bd (htsCmp rng s n) (s + depth n)) ∧
  (∀ rng s, Bd (htsBody rng s n) (s + depth n + 1)) ∧ (∀ rng s, Bd (htsBodies rng s n) (s + depth n)) ∧
  (∀ rng s, Bd (htsDfltBody rng s n) (s + depth n)) ∧ (∀ rng s, Bd (htsDflt rng s n) (s + depth n)) ∧
  (∀ rng s, Bd (htsItems rng s n) (s + depthItems n)) ∧ countItems n ≤ depthItems n

/-- the list-shaped components on a node that is neither a list nor a case -/
macro "sbd_rest" : tactic =>
  `(tactic| (refine ⟨?_, by intro rng s; simp [htsVals, Bd], by intro rng s; simp [htsCmpCase, Bd],
      by intro rng s; simp [htsCmp, Bd], by intro rng s; simp [htsBody, Bd], by intro rng s; simp [htsBodies, Bd],
      by intro rng s; simp [htsDfltBody, Bd], by intro rng s; simp only [htsDflt, Bd_r1]; omega,
      by intro rng s; simp [htsItems, Bd], by simp [countItems]⟩))

/-- after unfolding: conjunctions of bounds, each an arithmetic fact or a sub-node's bound -/
macro "sbd_split" : tactic =>
  `(tactic| (simp only [Bd_append, Bd_r1, Bd_r2, Bd_r3, Bd_nil, and_true, true_and]; repeat' apply And.intro))

theorem hts_le_depth (n : N) : DepthOK n := by
  induction n with
  | cons h t ihh iht =>
    obtain ⟨h1, _, h3, _, h5, _, h7, _, _, _⟩ := ihh
    obtain ⟨t1, t2, _, t4, _, t6, _, t8, t9, t10⟩ := iht
    refine ⟨?_, ?_, ?_, ?_, ?_, ?_, ?_, ?_, ?_, ?_⟩
    · intro rng x
      simp only [hts, depth, Bd_append]
      refine ⟨Bd_preH x h _ (by omega), ?_⟩
      split <;> split <;> sbd_split <;>
        first | omega | exact (h1 _ _).mono (by omega) | exact (t1 _ _).mono (by omega)
    · intro rng s
      simp only [htsVals, depth]
      sbd_split <;> first | omega | exact (h1 _ _).mono (by omega) | exact (t2 _ _).mono (by omega)
    · intro rng s; simp [htsCmpCase, Bd]
    · intro rng s
      simp only [htsCmp, depth]
      sbd_split <;> first | exact (h3 _ _).mono (by omega) | exact (t4 _ _).mono (by omega)
    · intro rng s; simp [htsBody, Bd]
    · intro rng s
      simp only [htsBodies, depth]
      sbd_split <;> first | exact (h5 _ _).mono (by omega) | exact (t6 _ _).mono (by omega)
    · intro rng s; simp [htsDfltBody, Bd]
    · intro rng s
      simp only [htsDflt, depth]
      split
      · exact (h7 _ _).mono (by omega)
      · exact (t8 _ _).mono (by omega)
    · intro rng s
      simp only [htsItems, depthItems]
      sbd_split <;> first | exact (h1 _ _).mono (by omega) | exact (t9 _ _).mono (by omega)
    · simp only [countItems, depthItems]; omega
  | case_ vals body ihv ihb =>
    refine ⟨by intro rng x; simp [hts, Bd], by intro rng s; simp [htsVals, Bd], ?_, by intro rng s; simp [htsCmp, Bd], ?_,
      by intro rng s; simp [htsBodies, Bd], by intro rng s; simp [htsDfltBody, Bd], by intro rng s; simp only [htsDflt, Bd_r1]; omega,
      by intro rng s; simp [htsItems, Bd], by simp [countItems]⟩
    · intro rng s; simp only [htsCmpCase, depth]; exact (ihv.2.1 _ _).mono (by omega)
    · intro rng s
      simp only [htsBody, depth]
      sbd_split <;> first | omega | exact (ihb.1 _ _).mono (by omega)
  | default_ body ihb =>
    refine ⟨by intro rng x; simp [hts, Bd], by intro rng s; simp [htsVals, Bd], by intro rng s; simp [htsCmpCase, Bd],
      by intro rng s; simp [htsCmp, Bd], by intro rng s; simp [htsBody, Bd], by intro rng s; simp [htsBodies, Bd], ?_,
      by intro rng s; simp only [htsDflt, Bd_r1]; omega, by intro rng s; simp [htsItems, Bd], by simp [countItems]⟩
    intro rng s; simp only [htsDfltBody, depth]; exact ihb.1 _ _
  | «infix» op l r ihl ihr =>
    sbd_rest
    intro rng x
    simp only [hts, depth]
    split
    · sbd_split <;> first | omega | exact (ihl.1 _ _).mono (by omega) | exact (ihr.1 _ _).mono (by omega)
    · split <;> sbd_split <;> first | omega | exact (ihl.1 _ _).mono (by omega) | exact (ihr.1 _ _).mono (by omega)
  | neg e ih => sbd_rest; intro rng x; simp only [hts, depth]; sbd_split <;> first | omega | exact (ih.1 _ _).mono (by omega)
  | not e ih => sbd_rest; intro rng x; simp only [hts, depth]; sbd_split <;> first | omega | exact (ih.1 _ _).mono (by omega)
  | tern c a b ihc iha ihb =>
    sbd_rest; intro rng x; simp only [hts, depth]
    sbd_split <;> first | omega | exact (ihc.1 _ _).mono (by omega) | exact (iha.1 _ _).mono (by omega) | exact (ihb.1 _ _).mono (by omega)
  | if_ c a b ihc iha ihb =>
    sbd_rest; intro rng x; simp only [hts, depth]
    sbd_split <;> first | omega | exact (ihc.1 _ _).mono (by omega) | exact (iha.1 _ _).mono (by omega) | exact (ihb.1 _ _).mono (by omega)
  | block s ih => sbd_rest; intro rng x; simp only [hts, depth]; exact ih.1 _ _
  | prog s ih => sbd_rest; intro rng x; simp only [hts, depth]; exact ih.1 _ _
  | expr s ih => sbd_rest; intro rng x; simp only [hts, depth]; exact ih.1 _ _
  | var y e ih => sbd_rest; intro rng x; simp only [hts, depth]; sbd_split <;> first | omega | exact (ih.1 _ _).mono (by omega)
  | assign y op e ih =>
    sbd_rest; intro rng x; simp only [hts, depth]
    split <;> sbd_split <;> first | omega | exact (ih.1 _ _).mono (by omega)
  | «postfix» y inc => sbd_rest; intro rng x; simp only [hts, depth]; sbd_split <;> omega
  | forcond c b ihc ihb =>
    sbd_rest; intro rng x; simp only [hts, depth]
    sbd_split <;> first | omega | exact (ihc.1 _ _).mono (by omega) | exact (ihb.1 _ _).mono (by omega)
  | forever b ihb =>
    sbd_rest; intro rng x; simp only [hts, depth]
    sbd_split <;> first | omega | exact (ihb.1 _ _).mono (by omega)
  | for3 i c p b ihi ihc ihp ihb =>
    sbd_rest; intro rng x; simp only [hts, depth]
    split <;> sbd_split <;>
      (first | omega | exact (ihi.1 _ _).mono (by omega) | exact (ihc.1 _ _).mono (by omega) | exact (ihp.1 _ _).mono (by omega) | exact (ihb.1 _ _).mono (by omega))
  | switch subj cases ihs ihc =>
    sbd_rest; intro rng x; simp only [hts, depth]
    sbd_split <;>
      (first | omega | exact (ihs.1 _ _).mono (by omega) | exact (ihc.2.2.2.1 _ _).mono (by omega) | exact (ihc.2.2.2.2.2.1 _ _).mono (by omega) | exact (ihc.2.2.2.2.2.2.2.1 _ _).mono (by omega))
  | list items ih =>
    sbd_rest; intro rng x; simp only [hts, depth]
    have hc := ih.2.2.2.2.2.2.2.2.2
    sbd_split <;> first | omega | exact ih.2.2.2.2.2.2.2.2.1 _ _
  | index e i ihe ihi =>
    sbd_rest; intro rng x; simp only [hts, depth]
    sbd_split <;> first | omega | exact (ihe.1 _ _).mono (by omega) | exact (ihi.1 _ _).mono (by omega)
  | setitem op o i v iho ihi ihv =>
    sbd_rest; intro rng x; simp only [hts, depth]
    split <;> sbd_split <;>
      (first | omega | exact (iho.1 _ _).mono (by omega) | exact (ihi.1 _ _).mono (by omega) | exact (ihv.1 _ _).mono (by omega))
  | forrange k v c b ihc ihb =>
    sbd_rest; intro rng x; simp only [hts, depth]
    have hn := rngNames_length_le k v
    sbd_split <;>
      (first | omega | exact (ihc.1 _ _).mono (by omega) | exact (ihb.1 _ _).mono (by omega) | exact Bd_storesH _ _ _ (by omega))
  | forin v c b ihc ihb =>
    sbd_rest; intro rng x; simp only [hts, depth]
    sbd_split <;>
      (first | omega | exact (ihc.1 _ _).mono (by omega) | exact (ihb.1 _ _).mono (by omega) | exact Bd_storesH _ _ _ (by simp only [List.length_cons, List.length_nil]; omega))
  | break_ => sbd_rest; intro rng x; simp only [hts, depth]; split <;> sbd_split <;> omega
  | _ => sbd_rest; intro rng x; simp only [hts, depth, Bd_r1, Bd_r2, Bd_nil] <;> omega

/-- a program whose syntactic nesting depth is within the frame's limit fits it -/
theorem fitsSeq_of_depth (p : N) (h : depth p ≤ maxHeight) : fitsSeq p = true := by
  simp only [fitsSeq, List.all_eq_true, decide_eq_true_eq]
  intro x hx
  have := (hts_le_depth p).1 false 0 x hx
  omega

/-! ### deeply nested operands (the witness of `seq_compile_balanced_needs_fits`; `deep`,
    `deepProg` of `FragCert.lean` read as a program of the container fragment) -/

theorem deep_isE (k : Nat) : isE (deep k) = true := by cases k <;> rfl

theorem deep_facts (k : Nat) : wf (deep k) = true ∧ escapes (deep k) = false ∧
    (∀ env, scopeOK env (deep k) = true) ∧ decls (deep k) = [] := by
  induction k with
  | zero => simp [deep, wf, escapes, scopeOK, decls]
  | succ k ih =>
    obtain ⟨h1, h3, h4, h5⟩ := ih
    have hi : isE (.int 1) = true := rfl
    simp [deep, wf, escapes, scopeOK, decls, opOK, hi, deep_isE, h1, h3, h4, h5]

theorem deepProg_inSeq (k : Nat) : inSeq (deepProg k) = true := by
  obtain ⟨h1, h3, h4, h5⟩ := deep_facts k
  simp [deepProg, inSeq, wf, isL, isS, leaves, isUnitNode, escapes, wellScoped, scopeOK, decls, Frag.nodup, deep_isE, h1,
    h3, h4, h5]

/-- running the code of `deep k` from height `h` loads its `k + 1` constants one after the
    other: the stack then holds all of them at once -/
theorem deep_reach (rng : Bool) (code : Seq.Code) : ∀ (k pc h : Nat), Win code pc (comp 0 0 rng (deep k)) →
    Reach (toC04 code) ⟨pc, h⟩ → Reach (toC04 code) ⟨pc + 2 * (k + 1), h + (k + 1)⟩ := by
  have hstep : ∀ pc h rest, Win code pc (two (.constInt 1) ++ rest) → Reach (toC04 code) ⟨pc, h⟩ →
      Reach (toC04 code) ⟨pc + 2, h + 1⟩ := by
    intro pc h rest hw hr
    have hat : (toC04 code).at pc = some ⟨.loadConst, 0, 0⟩ := by
      have := Win.head hw.left
      simp [toC04, Code.at, this, insOf]
    exact .step hr (.mk (l := [(pc + 2, h + 1)]) hat (by simp [succs, Ins.kind, Ins.size, Op.operands]) (by simp))
  intro k
  induction k with
  | zero =>
    intro pc h hw hr
    have := hstep pc h [] (by simpa [deep, comp] using hw) hr
    simpa using this
  | succ k ih =>
    intro pc h hw hr
    simp only [deep, comp, reduceCtorEq, ↓reduceIte, List.append_assoc] at hw
    have r1 := hstep pc h _ hw hr
    have hw2 : Win code (pc + 2) (comp 0 0 rng (deep k)) := by
      have := hw.right.left
      simpa using this
    have r2 := ih (pc + 2) (h + 1) hw2 r1
    have e1 : pc + 2 + 2 * (k + 1) = pc + 2 * (k + 1 + 1) := by omega
    have e2 : h + 1 + (k + 1) = h + (k + 1 + 1) := by omega
    rw [e1, e2] at r2
    exact r2

end Risor.C04.SeqC
