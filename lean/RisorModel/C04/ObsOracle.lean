import RisorModel.Util
import RisorModel.C04.Obs
/-!
Line-protocol front end of the round-5 model (requests `C04 tmpl …`, `C04 trace …`); not part
of any theorem.

  `tmpl <fragments> <instruction text of the REAL window>` → `ok` TAB f1 … f5
      fragments: tokens joined by `,`: `T` (text) | `E` (empty interpolation) | `H<postfix>` (an
      interpolation; the expression in postfix: `c` constant, `g` global, `l` local, `b` binary
      operator, `i` index, `k` call with one argument, `n` negation)
        f1  the code `compileString` emits as the model has it, indices erased
        f2  `same` | `differs`     the real window with indices erased IS f1
        f3  `<k>` | `underflow`    `runStraight` over the REAL window from height 0: the Spec demands 1
        f4  the same for the model's code (always 1: `compileString_pushes_one`)
        f5  the number of empty interpolations (what the forbidden variant would leave behind)
  `trace <main|fn> <instruction text of the REAL code object> <pc:h,pc:h,…>` → `ok` TAB g1 … g4
      (the observed run of ONE frame activation: slot and real height at every dispatched instruction)
        g1  `agree` | `departs <k>`   first step of the real run the model machine does not allow
        g2  `neutral` | `leak <slot> <h1> <h2>`   SPEC on the real run: one slot, one height
        g3  `accept` | `reject`       `infer` + the verified `check` on the real code object
        g4  `follows` | `differs` | `nocert`   the real run against the accepted certificate
-/
namespace Risor.C04.Obs
open Risor.C04
open Risor.C04.MV (runStraight insOfSlots)

def parseTE (s : String) : Option TE :=
  let step (st : Option (List TE)) (ch : Char) : Option (List TE) :=
    match st with
    | none => none
    | some stack =>
      if ch == 'c' then some (TE.lit :: stack)
      else if ch == 'g' then some (TE.glob :: stack)
      else if ch == 'l' then some (TE.loc :: stack)
      else if ch == 'n' then
        match stack with
        | a :: r => some (TE.neg a :: r)
        | _ => none
      else
        match stack with
        | b :: a :: r =>
          if ch == 'b' then some (TE.bin a b :: r)
          else if ch == 'i' then some (TE.idx a b :: r)
          else if ch == 'k' then some (TE.call1 a b :: r)
          else none
        | _ => none
  match s.toList.foldl step (some []) with
  | some [e] => some e
  | _ => none

def parseFrag (t : String) : Option Frag :=
  if t == "T" then some .text
  else if t == "E" then some .empty
  else if t.startsWith "H" then (parseTE (String.ofList (t.toList.drop 1))).map fun e => .hole e.code
  else none

def parseFrags (s : String) : Option (List Frag) := ((s.splitOn ",").filter (· ≠ "")).mapM parseFrag

def opText : Op → String
  | .loadConst => "LOAD_CONST" | .loadGlobal => "LOAD_GLOBAL" | .loadFast => "LOAD_FAST"
  | .binaryOp => "BINARY_OP" | .binarySubscr => "BINARY_SUBSCR" | .call => "CALL"
  | .unaryNegative => "UNARY_NEGATIVE" | .buildString => "BUILD_STRING"
  | _ => "?"

def insText (i : Ins) : String :=
  match i.op with
  | .call | .buildString => opText i.op ++ ":" ++ toString i.a
  | _ => opText i.op

/-- indices the height of the stack does not depend on -/
def eraseIns (i : Ins) : Ins :=
  match i.op with
  | .loadConst | .loadGlobal | .loadFast | .binaryOp => { i with a := 0 }
  | _ => i

def netText (l : List Ins) : String :=
  match runStraight l 0 with
  | some k => toString k
  | none => "underflow"

def handleTmpl : List String → String
  | [frags, text] =>
    match parseFrags frags, decode true text with
    | none, _ => "error\tcannot decode the fragments"
    | _, .error e => "error\t" ++ e
    | some fs, .ok real =>
      let model := compileString fs
      let realIns := insOfSlots real.slots.toList
      "\t".intercalate ["ok", " ".intercalate (model.map insText),
        if realIns.map eraseIns == model then "same" else "differs",
        netText realIns, netText model, toString (empties fs)]
  | _ => "error\tunknown-request"

def parseObs (s : String) : Option (List (Nat × Nat)) :=
  ((s.splitOn ",").filter (· ≠ "")).mapM fun t =>
    match t.splitOn ":" with
    | [a, b] =>
      match a.toNat?, b.toNat? with
      | some x, some y => some (x, y)
      | _, _ => none
    | _ => none

def handleTrace : List String → String
  | [kind, text, obs] =>
    match decode (kind == "main") text, parseObs obs with
    | .error e, _ => "error\t" ++ e
    | _, none => "error\tcannot decode the observed run"
    | .ok c, some t =>
      let g1 :=
        match t with
        | a :: _ =>
          if a != (0, 0) then "departs 0"
          else match firstDeparture c t 0 with
            | some k => "departs " ++ toString (k + 1)
            | none => "agree"
        | [] => "agree"
      let g2 :=
        if neutral t then "neutral"
        else match firstLeak t with
          | some (s, h1, h2) => s!"leak {s} {h1} {h2}"
          | none => "leak ? ? ?"
      let (g3, g4) :=
        match infer c with
        | .error _ => ("reject", "nocert")
        | .ok cert =>
          if check c cert then ("accept", if followsCert cert t then "follows" else "differs")
          else ("reject", "nocert")
      "\t".intercalate ["ok", g1, g2, g3, g4]
  | _ => "error\tunknown-request"

end Risor.C04.Obs
