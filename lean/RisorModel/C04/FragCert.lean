import RisorModel.C04.Model
import RisorModel.C01.Frag
/-
C04 on the proved fragment of C01 — definitions.

`toC04` turns the code the functional compiler `Frag.comp` produces (slots `some ins` /
`none`, relative jumps, constants inline, globals by name) into C04's `Code`, slot for slot.
The only information it drops is which constant / which global an instruction refers to
(operand 0 instead of the pool index): `Ins.kind`, hence `check`, never reads the operand of
`LOAD_CONST`, `LOAD_GLOBAL`, `STORE_GLOBAL`.  `eraseIdx` drops the same operands from a
decoded REAL code object, so that "the real bytecode is `toC04 (compF p)`" is a literal
equality the oracle evaluates on every run (`FragCertOracle.lean`), and
`FragCertProps.check_eraseIdx` proves that erasing does not change what `check` accepts.

`hts h n` is the operand-stack height before every SLOT of `comp kb kc n` (independent of
`kb`, `kc`) when the node starts at height `h`; it mirrors `comp` piece by piece.  An
expression ends at `h + 1`, a unit statement at `h`; `break` / `continue` jump with the height
the enclosing loop started with.  `certOf` masks the operand slots (`none`), `fragCert` adds
the end-of-code entry: exactly one value.
Core Lean only.
-/
namespace Risor.C04
open Risor.C01 Risor.C01.Frag

/-- one fragment instruction as a C04 instruction (pool / table indices erased) -/
def insOf : FIns → Ins
  | .nop => ⟨.nop, 0, 0⟩
  | .nil_ => ⟨.nil_, 0, 0⟩
  | .true_ => ⟨.true_, 0, 0⟩
  | .false_ => ⟨.false_, 0, 0⟩
  | .popTop => ⟨.popTop, 0, 0⟩
  | .unaryNeg => ⟨.unaryNegative, 0, 0⟩
  | .unaryNot => ⟨.unaryNot, 0, 0⟩
  | .constInt _ => ⟨.loadConst, 0, 0⟩
  | .constStr _ => ⟨.loadConst, 0, 0⟩
  | .loadG _ => ⟨.loadGlobal, 0, 0⟩
  | .storeG _ => ⟨.storeGlobal, 0, 0⟩
  | .binary k => ⟨.binaryOp, k, 0⟩
  | .compare k => ⟨.compareOp, k, 0⟩
  | .copy k => ⟨.copy, k, 0⟩
  | .swap k => ⟨.swap, k, 0⟩
  | .jf d => ⟨.jumpForward, d, 0⟩
  | .jb d => ⟨.jumpBackward, d, 0⟩
  | .pjf d => ⟨.popJumpForwardIfFalse, d, 0⟩
  | .pjt d => ⟨.popJumpForwardIfTrue, d, 0⟩

/-- the fragment's code as a C04 code object (the main code object of a program) -/
def toC04 (code : Frag.Code) : Code :=
  { slots := (code.map (Option.map insOf)).toArray, isMain := true }

/-- operands `check` never reads: the pool index of `LOAD_CONST`, the table index of
    `LOAD_GLOBAL` / `STORE_GLOBAL` -/
def eraseIns (i : Ins) : Ins :=
  match i.op with
  | .loadConst | .loadGlobal | .storeGlobal => { i with a := 0 }
  | _ => i

def eraseIdx (c : Code) : Code := { c with slots := c.slots.map (Option.map eraseIns) }

/-! ### heights -/

/-- height of a one-slot instruction -/
def r1 (h : Nat) : List Nat := [h]
/-- height of an instruction with one operand (the operand slot repeats it; it is masked) -/
def r2 (h : Nat) : List Nat := [h, h]

/-- `x++` in a statement list: `LoadGlobal x; PopTop` first (`Frag.pre`) -/
def preH (h : Nat) (n : N) : List Nat :=
  match postName n with
  | some _ => r2 h ++ r1 (h + 1)
  | none => []

/-- what a node leaves on the stack when control falls out of its end: a unit statement
    nothing, everything else one value -/
def exitD (n : N) : Nat := if isUnitNode n then 0 else 1

mutual
/-- heights before every slot of `comp kb kc n` for a node entered at height `h` -/
def hts (h : Nat) : N → List Nat
  | .nilLit | .none_ | .nilL | .bool _ => r1 h
  | .int _ | .str _ | .id _ | .break_ | .continue_ => r2 h
  | .infix op l r =>
    if op = .and then
      hts h l ++ r2 (h + 1) ++ r2 (h + 2) ++ hts (h + 1) r ++ r2 (h + 2) ++ r1 (h + 1)
    else if op = .or then
      hts h l ++ r2 (h + 1) ++ r2 (h + 2) ++ hts (h + 1) r ++ r2 (h + 2) ++ r1 (h + 1)
    else hts h l ++ hts (h + 1) r ++ r2 (h + 2)
  | .neg e | .not e => hts h e ++ r1 (h + 1)
  | .tern c a b | .if_ c a b => hts h c ++ r2 (h + 1) ++ hts h a ++ r2 (h + 1) ++ hts h b
  | .block s | .prog s | .expr s => hts h s
  | .cons hd t =>
    preH h hd ++
      (if isNilL t then hts h hd ++ (if leaves hd then [] else r1 h)
       else hts h hd ++ ((if leaves hd then r1 (h + 1) else []) ++ hts h t))
  | .var _ e => hts h e ++ r2 (h + 1)
  | .assign _ op e =>
    if op = .set then hts h e ++ r2 (h + 1)
    else r2 h ++ hts (h + 1) e ++ r2 (h + 2) ++ r2 (h + 1)
  | .postfix _ _ => r2 h ++ r2 (h + 1) ++ r2 (h + 2) ++ r2 (h + 1)
  | .forcond c b => hts h c ++ r2 (h + 1) ++ hts h b ++ r1 (h + 1) ++ r2 h ++ r1 h
  | .forever b => hts h b ++ r1 (h + 1) ++ r2 h ++ r1 h
  | .for3 i c p b =>
    hts h i ++ hts h c ++ r2 (h + 1) ++ hts h b ++ r1 (h + 1)
      ++ hts h p ++ (if leaves p then r1 (h + 1) else []) ++ r2 h
  | .switch subj cases =>
    -- the subject stays below everything until `Swap 1; PopTop` drops it
    hts h subj ++ htsCmp (h + 1) cases ++ r2 (h + 1) ++ htsBodies (h + 1) cases
      ++ htsDflt (h + 1) cases ++ r2 (h + 2) ++ r1 (h + 2)
  | _ => []
/-- `Copy 0; v; CompareOp ==; PopJumpForwardIfTrue` at subject height `s` -/
def htsVals (s : Nat) : N → List Nat
  | .cons v vs => r2 s ++ hts (s + 1) v ++ r2 (s + 2) ++ r2 (s + 1) ++ htsVals s vs
  | _ => []
def htsCmpCase (s : Nat) : N → List Nat
  | .case_ vals _ => htsVals s vals
  | _ => []
def htsCmp (s : Nat) : N → List Nat
  | .cons hd t => htsCmpCase s hd ++ htsCmp s t
  | _ => []
def htsBody (s : Nat) : N → List Nat
  | .case_ _ body => hts s body ++ r2 (s + 1)
  | _ => []
def htsBodies (s : Nat) : N → List Nat
  | .cons hd t => htsBody s hd ++ htsBodies s t
  | _ => []
def htsDfltBody (s : Nat) : N → List Nat
  | .default_ body => hts s body
  | _ => []
def htsDflt (s : Nat) : N → List Nat
  | .cons hd t => if isDefault hd then htsDfltBody s hd else htsDflt s t
  | _ => r1 s
end

/-- keep the heights of opcode slots only -/
def mask {α : Type} : List (Option α) → List Nat → List (Option Nat)
  | s :: c, x :: hs => (s.map fun _ => x) :: mask c hs
  | _, _ => []

/-- a certificate from the heights of every slot and the height at the end of the code -/
def mkCert {α : Type} (code : List (Option α)) (H : List Nat) (hend : Nat) : Cert :=
  (mask code H ++ [some hend]).toArray

/-- the certificate of a node's code when it is entered at height `h` (operand slots `none`) -/
def certOf (h : Nat) (n : N) : List (Option Nat) := mask (comp 0 0 n) (hts h n)

/-- the certificate of a whole program: entered with an empty operand stack, finished with
    exactly its result -/
def fragCert (p : N) : Cert := mkCert (compF p) (hts 0 p) 1

/-- the certificate `hts` gives for a program, laid over the slot structure of ANY code
    object (used on the real compiler's bytecode by the oracle) -/
def fragCertFor (c : Code) (p : N) : Cert := mkCert c.slots.toList (hts 0 p) 1

/-- the largest number of operands any slot of the program's code sees -/
def peak (p : N) : Nat := (hts 0 p).foldl max 0

/-- the guard of `frag_compile_balanced`: the program's operand nesting fits the frame's
    height limit (`maxHeight`; deeper NESTING of expressions overflows regardless of loops) -/
def fits (p : N) : Bool := (hts 0 p).all (· ≤ maxHeight)

/-- operand nesting depth, by recursion on the syntax: an upper bound of how far above its
    entry height the code of a node takes the operand stack (`hts_le_depth`).  A binary
    operator holds its left value while the right operand runs; a `switch` holds its subject;
    a list element is charged 2 for the values its neighbours may hold (`Copy`, comparison). -/
def depth : N → Nat
  | .infix _ l r => max (depth l) (max (depth r + 1) 2)
  | .neg e | .not e => max (depth e) 1
  | .tern c a b | .if_ c a b => max (depth c) (max 1 (max (depth a) (depth b)))
  | .block s | .prog s | .expr s => depth s
  | .cons h t => max (depth h + 2) (depth t)
  | .var _ e => max (depth e) 1
  | .assign _ _ e => max (depth e + 1) 2
  | .postfix _ _ => 2
  | .forcond c b => max (depth c) (max 1 (depth b))
  | .forever b => max 1 (depth b)
  | .for3 i c p b => max (depth i) (max (depth c) (max 1 (max (depth p) (depth b))))
  | .switch subj cases => max (depth subj) (max (depth cases + 1) 2)
  | .case_ vals body => max (depth vals) (depth body)
  | .default_ body => depth body
  | _ => 0

/-! ### the witness of `frag_compile_balanced_needs_fits` -/

/-- `1 + (1 + (… + 1))` with `k` additions -/
def deep : Nat → N
  | 0 => .int 1
  | k + 1 => .infix .add (.int 1) (deep k)

def deepProg (k : Nat) : N := .prog (.cons (.expr (deep k)) .nilL)

end Risor.C04
