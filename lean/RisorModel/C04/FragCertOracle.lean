import RisorModel.Util
import RisorModel.C04.FragCert
import RisorModel.C01.FragOracle
/-!
Line-protocol front end of the fragment certificate (request `C04 fragcert …`); not part of
any theorem.  It evaluates, on one program of the fragment and the bytecode the REAL compiler
emitted for it, the facts that tie `frag_compile_balanced` to the code:

  `fragcert <sexp> <globals> <instruction text of the real main code object>` →
      `out`                       the program is outside the fragment, or
      `in` TAB f1 … f6 with
        f1  `accept` | `reject`   `check real (fragCertFor real p)`: the certificate computed from the
                                   SYNTAX TREE (`hts`) laid over the real bytecode, decided by the verified checker
        f2  `same` | `differs`    `eraseIdx real == toC04 (compF p)`: the object of the theorem IS the real
                                   bytecode up to the operands `check` never reads (`check_eraseIdx`)
        f3  `accept` | `reject`   `check (toC04 (compF p)) (fragCert p)` (theorem `frag_cert_accepted`: `accept` when f4 = `fits`)
        f4  `fits` | `deep`       the guard `fits p`
        f5  peak height named by the certificate
        f6  `agree` | `differ`    the certificate inferred from the real bytecode (`infer`) agrees with
                                   `fragCertFor` on every offset it reaches
-/
namespace Risor.C04
open Risor.C01 Risor.C01.Frag

/-- `a` assigns nothing different from `b` where `a` assigns a height -/
def certLe (a b : Cert) : Bool :=
  a.size == b.size && (List.range a.size).all fun i =>
    match a[i]? with
    | some (some h) => b[i]? == some (some h)
    | _ => true

def handleFragCert : List String → String
  | [sx, globals, text] =>
    match decodeProg sx with
    | none => "error\tcannot decode the program"
    | some p =>
      let gs := (globals.splitOn ",").filter (· ≠ "")
      if !fragIn gs p then "out" else
      match decode true text with
      | .error e => "error\t" ++ e
      | .ok real =>
        let model := toC04 (compF p)
        let cert := fragCertFor real p
        let inferred :=
          match infer real with
          | .ok ci => if certLe ci cert then "agree" else "differ"
          | .error e => "differ:" ++ e
        "\t".intercalate ["in",
          if check real cert then "accept" else "reject",
          if (eraseIdx real).slots == model.slots && real.isMain == model.isMain then "same" else "differs",
          if check model (fragCert p) then "accept" else "reject",
          if fits p then "fits" else "deep",
          toString (peak p),
          inferred]
  | _ => "error\tunknown-request"

end Risor.C04
