import RisorModel.C04.Model
import RisorModel.C04.MultiVar
import RisorModel.C04.Obs
/-
C04 — round 6: two scenario classes the earlier model did not have.

PART 1, LIST LITERALS OF EVERY LENGTH (compiler.compileList).  `[e1, …, en]` compiles to the code
of every item in order and ONE `BUILD_LIST n`, which pops `n` values and pushes the list — for
every `n` up to 65535, in particular for literals longer than any "chunk" a compiler might want
to build them in (data tables, generated code).  The expression is worth exactly one value
whatever `n` is.  `compileList` is the code as it is; `compileListChunked` is the forbidden
shape: the first chunk built as usual and every further chunk appended with
`COPY 0; LOAD_ATTR extend; <items>; BUILD_LIST k; CALL 1`, which keeps the copy of the list
under the bound method and so leaves one stale value per further chunk.

PART 2, MEMBERSHIP TESTS (compiler.compileIn / compileNotIn).  `l in r` compiles to the code of
`l`, the code of `r`, `SWAP 1; CONTAINS_OP` (`not in`: plus `UNARY_NOT`) — for EVERY left operand
(identifier, constant, call, index, arithmetic) and EVERY right operand (a variable, a list
literal of constants, …): one straight line, one value, the same on every outcome of the test.
`keptSubjectHitPath` is the forbidden shape: a chain of comparisons against the items of a
literal list that keeps a computed subject on the stack (`COPY 1` for every comparison but the
last) and leaves the chain on an early hit without dropping it.
Core Lean only (linked into the oracle).
-/
namespace Risor.C04.Lit
open Risor.C04
open Risor.C04.MV (runStraight)

def flat : List (List Ins) → List Ins
  | [] => []
  | c :: r => c ++ flat r

def buildList (n : Nat) : Ins := ⟨.buildList, n, 0⟩

/-- compiler.compileList as it is: every item, then `BUILD_LIST len(items)` -/
def compileList (items : List (List Ins)) : List Ins := flat items ++ [buildList items.length]

/-- `COPY 0; LOAD_ATTR extend; <items>; BUILD_LIST k; CALL 1` (the forbidden shape's further chunk) -/
def extendChunk (items : List (List Ins)) : List Ins :=
  [⟨.copy, 0, 0⟩, ⟨.loadAttr, 0, 0⟩] ++ (flat items ++ [buildList items.length, ⟨.call, 1, 0⟩])

def chunksCode : List (List (List Ins)) → List Ins
  | [] => []
  | c :: r => extendChunk c ++ chunksCode r

/-- the forbidden shape: first chunk as usual, every further chunk appended in place -/
def compileListChunked (first : List (List Ins)) (rest : List (List (List Ins))) : List Ins :=
  compileList first ++ chunksCode rest

def inTail : List Ins := [⟨.swap, 1, 0⟩, ⟨.containsOp, 0, 0⟩]

/-- compiler.compileIn as it is -/
def compileIn (l r : List Ins) : List Ins := l ++ (r ++ inTail)

/-- compiler.compileNotIn as it is -/
def compileNotIn (l r : List Ins) : List Ins := compileIn l r ++ [⟨.unaryNot, 0, 0⟩]

/-- one comparison of the forbidden chain that is NOT a hit: `LOAD_CONST; COPY 1; COMPARE_OP ==`
    and the pop of the conditional jump that is not taken (written POP_TOP) -/
def missRound : List Ins :=
  [⟨.loadConst, 0, 0⟩, ⟨.copy, 1, 0⟩, ⟨.compareOp, 0, 0⟩, ⟨.popTop, 0, 0⟩]

def missRounds : Nat → List Ins
  | 0 => []
  | k + 1 => missRound ++ missRounds k

/-- the instructions the forbidden chain executes when the subject (kept on the stack) equals
    an item that is not the last one, after `misses` items that were not equal: the hit's
    comparison, the pop of the taken jump, and the shared epilogue `TRUE` -/
def keptSubjectHitPath (subject : List Ins) (misses : Nat) : List Ins :=
  subject ++ (missRounds misses ++ (missRound ++ [⟨.true_, 0, 0⟩]))

/-- the expression used as an expression statement -/
def stmt (expr : List Ins) : List Ins := Obs.stmt expr

end Risor.C04.Lit
