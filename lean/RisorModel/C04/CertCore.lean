import RisorModel.C04.FragCert
/-!
C04 — the part of the syntax-directed certificate development that does not depend on WHICH
functional compiler produced the code: it is shared by the fragment F1–F3 (`FragCertLemmas.lean`,
instruction type `Frag.FIns`, all variables global) and by the function fragment F4
(`FunCertLemmas.lean`, instruction type `Fun.FIns`: `LoadFast` / `StoreFast`, `Call n`,
`ReturnValue`, function constants; several code objects per program).

`Ctx α io` fixes one whole code object over an instruction type `α` with its translation
`io : α → Ins` to C04's instructions: the slots (`code`), the heights of all its slots (`H`), the
certificate's entry for the end-of-code position (`hend`: `some 1` for a main code object,
`none` — unreachable — for a function body, which always leaves through `ReturnValue`) and
whether it is the main code object.  `G.cert` is the certificate they give, `G.C` the C04 code.
`G.Ok pc` is `check`'s per-offset test (`checkAt`) at `pc`, `G.Tgt p x` says that offset `p` is a
legal place to arrive at with height `x` (`okTarget`).  `G.At pc c hs` says that the code piece
`c` with heights `hs` sits at offset `pc`.  The per-instruction lemmas (`okwin_*`) reduce `G.Ok`
to `G.Tgt` of the successors, for ANY instruction of a given `Ins.kind`; `check_of_okwin`
assembles `check` from them; `check_mapIns` says that rewriting operands `Ins.kind` never reads
does not change what `check` accepts.
-/
namespace Risor.C04

/-! ### windows -/

/-- the list `w` sits at offset `pc` of `l` -/
def Win {α : Type} (l : List α) (pc : Nat) (w : List α) : Prop :=
  ∀ i, i < w.length → l[pc + i]? = w[i]?

theorem Win.left {α : Type} {l : List α} {pc : Nat} {a b : List α} (h : Win l pc (a ++ b)) : Win l pc a := by
  intro i hi
  have := h i (by simp; omega)
  rw [this, List.getElem?_append_left hi]

theorem Win.right {α : Type} {l : List α} {pc : Nat} {a b : List α} (h : Win l pc (a ++ b)) :
    Win l (pc + a.length) b := by
  intro i hi
  have := h (a.length + i) (by simp; omega)
  rw [← Nat.add_assoc] at this
  rw [this, List.getElem?_append_right (by omega)]
  simp

theorem Win.head {α : Type} {l : List α} {pc : Nat} {x : α} {rest : List α} (h : Win l pc (x :: rest)) :
    l[pc]? = some x := by
  have := h 0 (by simp)
  simpa using this

theorem Win.second {α : Type} {l : List α} {pc : Nat} {x y : α} {rest : List α} (h : Win l pc (x :: y :: rest)) :
    l[pc + 1]? = some y := by
  have := h 1 (by simp)
  simpa using this

theorem Win.self {α : Type} (l : List α) : Win l 0 l := by
  intro i _
  simp

/-! ### masking -/

theorem mask_get {α : Type} : ∀ (code : List (Option α)) (H : List Nat) (p : Nat) (s : Option α) (x : Nat),
    code[p]? = some s → H[p]? = some x → (mask code H)[p]? = some (s.map fun _ => x)
  | [], _, _, _, _, h, _ => by simp at h
  | _ :: _, [], _, _, _, _, h => by simp at h
  | s0 :: c, x0 :: hs, 0, s, x, h1, h2 => by
    simp only [List.getElem?_cons_zero, Option.some.injEq] at h1 h2
    subst h1; subst h2; simp [mask]
  | s0 :: c, x0 :: hs, p + 1, s, x, h1, h2 => by
    simp only [List.getElem?_cons_succ] at h1 h2
    simp only [mask, List.getElem?_cons_succ]
    exact mask_get c hs p s x h1 h2

theorem mask_length {α : Type} : ∀ (code : List (Option α)) (H : List Nat), H.length = code.length →
    (mask code H).length = code.length
  | [], _, _ => by simp [mask]
  | _ :: _, [], h => by simp at h
  | s :: c, x :: hs, h => by
    simp only [List.length_cons, Nat.add_right_cancel_iff] at h
    simp [mask, mask_length c hs h]

@[simp] theorem r1_length (h : Nat) : (r1 h).length = 1 := rfl
@[simp] theorem r2_length (h : Nat) : (r2 h).length = 2 := rfl

/-! ### one code object with its heights -/

structure Ctx (α : Type) (io : α → Ins) where
  code : List (Option α)
  H : List Nat
  /-- the certificate's entry for the end-of-code position -/
  hend : Option Nat
  isMain : Bool
  hlen : H.length = code.length
  hmax : ∀ x, x ∈ H → x ≤ maxHeight
  hendmax : ∀ x, hend = some x → x ≤ maxHeight

namespace Ctx

variable {α : Type} {io : α → Ins}

section defs
variable (G : Ctx α io)

def C : Code := { slots := (G.code.map (Option.map io)).toArray, isMain := G.isMain }
def cert : Cert := (mask G.code G.H ++ [G.hend]).toArray

/-- instruction `i` is at offset `p`, and the heights give it `x` -/
def InsAt (p : Nat) (i : α) (x : Nat) : Prop := G.code[p]? = some (some i) ∧ G.H[p]? = some x

def Starts (p x : Nat) : Prop := ∃ i, G.InsAt p i x

/-- `p` is a place control may arrive at with height `x`: an instruction whose height is `x`,
    or the end of the code with the final height (never, in a function body) -/
def Tgt (p x : Nat) : Prop := G.Starts p x ∨ (p = G.code.length ∧ G.hend = some x)

def Ok (pc : Nat) : Prop := checkAt G.C G.cert pc = true

def OkWin (pc len : Nat) : Prop := ∀ i, i < len → G.Ok (pc + i)

/-- the piece `c` with heights `hs` sits at offset `pc` -/
def At (pc : Nat) (c : List (Option α)) (hs : List Nat) : Prop := Win G.code pc c ∧ Win G.H pc hs

end defs

variable {G : Ctx α io}

theorem C_size : G.C.size = G.code.length := by
  simp [C, Code.size]

theorem C_at {p : Nat} {s : Option α} (h : G.code[p]? = some s) : G.C.at p = s.map io := by
  simp [C, Code.at, h]

theorem cert_size : G.cert.size = G.code.length + 1 := by
  simp [cert, mask_length G.code G.H G.hlen]

theorem cert_in {p : Nat} {s : Option α} {x : Nat} (h1 : G.code[p]? = some s) (h2 : G.H[p]? = some x) :
    G.cert[p]? = some (s.map fun _ => x) := by
  have hm := mask_get G.code G.H p s x h1 h2
  have hlt : p < (mask G.code G.H).length := by
    rcases Nat.lt_or_ge p (mask G.code G.H).length with h | h
    · exact h
    · rw [List.getElem?_eq_none h] at hm; cases hm
  simp only [cert, List.getElem?_toArray]
  rw [List.getElem?_append_left hlt]
  exact hm

theorem cert_end : G.cert[G.code.length]? = some G.hend := by
  simp only [cert, List.getElem?_toArray]
  rw [List.getElem?_append_right (by rw [mask_length G.code G.H G.hlen]; exact Nat.le_refl _)]
  simp [mask_length G.code G.H G.hlen]

theorem lt_of_code {p : Nat} {s : Option α} (h : G.code[p]? = some s) : p < G.code.length := by
  rcases Nat.lt_or_ge p G.code.length with h1 | h1
  · exact h1
  · rw [List.getElem?_eq_none h1] at h; cases h

theorem okTarget_of_Tgt {p x : Nat} (h : G.Tgt p x) : okTarget G.C G.cert p x = true := by
  rcases h with ⟨i, h1, h2⟩ | ⟨h1, h2⟩
  · have hlt := lt_of_code h1
    have hx : x ≤ maxHeight := G.hmax x (List.mem_of_getElem? h2)
    have hc := cert_in h1 h2
    have ha := C_at h1
    simp only [okTarget, C_size, hc, ha, Option.map_some, Bool.and_eq_true, decide_eq_true_eq, beq_iff_eq,
      Option.isSome_some, Bool.or_true, and_true]
    exact ⟨Nat.le_of_lt hlt, hx⟩
  · subst h1
    have hx : x ≤ maxHeight := G.hendmax x h2
    simp only [okTarget, C_size, cert_end, h2, Bool.and_eq_true, decide_eq_true_eq, beq_self_eq_true,
      Bool.true_or, and_true]
    exact ⟨Nat.le_refl _, hx⟩

/-- an operand slot passes: the certificate has no height there -/
theorem ok_operand {p x : Nat} (h1 : G.code[p]? = some none) (h2 : G.H[p]? = some x) : G.Ok p := by
  have hc := cert_in h1 h2
  simp only [Option.map_none] at hc
  simp [Ok, checkAt, hc]

/-- an instruction passes when all its successors are legal targets -/
theorem ok_ins {p x : Nat} {i : α} {l : List (Nat × Nat)} (h : G.InsAt p i x)
    (hs : succs (io i) p x = some l) (hall : ∀ q, q ∈ l → G.Tgt q.1 q.2) : G.Ok p := by
  have hc := cert_in h.1 h.2
  have ha := C_at h.1
  simp only [Option.map_some] at hc ha
  simp only [Ok, checkAt, hc, ha, hs, List.all_eq_true]
  intro q hq
  exact okTarget_of_Tgt (hall q hq)

theorem OkWin.append {pc a b : Nat} (h1 : G.OkWin pc a) (h2 : G.OkWin (pc + a) b) : G.OkWin pc (a + b) := by
  intro i hi
  rcases Nat.lt_or_ge i a with h | h
  · exact h1 i h
  · have := h2 (i - a) (by omega)
    have e : pc + a + (i - a) = pc + i := by omega
    rw [e] at this
    exact this

theorem OkWin.cast {pc a b : Nat} (h : G.OkWin pc a) (e : a = b) : G.OkWin pc b := e ▸ h

theorem OkWin.zero (G : Ctx α io) (pc : Nat) : G.OkWin pc 0 := by
  intro i hi; cases hi

theorem Tgt.cast {p q x y : Nat} (h : G.Tgt p x) (e1 : p = q) (e2 : x = y) : G.Tgt q y := by
  subst e1; subst e2; exact h

theorem At.cast {p q : Nat} {c : List (Option α)} {hs : List Nat} (h : G.At p c hs) (e : p = q) : G.At q c hs := e ▸ h

/-! ### splitting pieces -/

theorem At.split {pc k : Nat} {c1 c2 : List (Option α)} {h1 h2 : List Nat} (h : G.At pc (c1 ++ c2) (h1 ++ h2))
    (e1 : c1.length = k) (e2 : h1.length = k) : G.At pc c1 h1 ∧ G.At (pc + k) c2 h2 := by
  subst e1
  refine ⟨⟨h.1.left, h.2.left⟩, ⟨h.1.right, ?_⟩⟩
  have := h.2.right
  rw [e2] at this
  exact this

/-- an instruction with one operand slot, then the rest -/
theorem At.two_cons {pc x : Nat} {i : α} {c2 : List (Option α)} {h2 : List Nat}
    (h : G.At pc ([some i, none] ++ c2) (r2 x ++ h2)) : G.At pc [some i, none] (r2 x) ∧ G.At (pc + 2) c2 h2 :=
  h.split rfl rfl

/-- an instruction without operand, then the rest -/
theorem At.one_cons {pc x : Nat} {i : α} {c2 : List (Option α)} {h2 : List Nat}
    (h : G.At pc ([some i] ++ c2) (r1 x ++ h2)) : G.At pc [some i] (r1 x) ∧ G.At (pc + 1) c2 h2 :=
  h.split rfl rfl

theorem At.insAt_two {pc x : Nat} {i : α} (h : G.At pc [some i, none] (r2 x)) : G.InsAt pc i x :=
  ⟨Win.head h.1, Win.head h.2⟩

theorem At.insAt_one {pc x : Nat} {i : α} (h : G.At pc [some i] (r1 x)) : G.InsAt pc i x :=
  ⟨Win.head h.1, Win.head h.2⟩

theorem At.tgt_two {pc x : Nat} {i : α} (h : G.At pc [some i, none] (r2 x)) : G.Tgt pc x := .inl ⟨i, h.insAt_two⟩
theorem At.tgt_one {pc x : Nat} {i : α} (h : G.At pc [some i] (r1 x)) : G.Tgt pc x := .inl ⟨i, h.insAt_one⟩

/-! ### one instruction, by its kind -/

/-- a straight-line instruction without operand -/
theorem okwin_fall1 {pc x a b : Nat} {i : α} (h : G.At pc [some i] (r1 x))
    (hk : (io i).kind = .fall a b) (hsz : (io i).size = 1) (ha : a ≤ x)
    (ht : G.Tgt (pc + 1) (x - a + b)) : G.OkWin pc 1 := by
  intro j hj
  have : j = 0 := by omega
  subst this
  refine ok_ins (l := [(pc + 1, x - a + b)]) h.insAt_one ?_ ?_
  · simp only [succs, hk, hsz, ha, if_true]
  · intro q hq
    simp only [List.mem_singleton] at hq
    subst hq; exact ht

/-- the operand slot of a two-slot instruction -/
theorem At.ok_second {pc x : Nat} {i : α} (h : G.At pc [some i, none] (r2 x)) : G.Ok (pc + 1) :=
  ok_operand (Win.second h.1) (Win.second h.2)

theorem At.okwin_two {pc x : Nat} {i : α} (h : G.At pc [some i, none] (r2 x)) (h0 : G.Ok pc) : G.OkWin pc 2 := by
  intro j hj
  rcases Nat.lt_or_ge j 1 with h1 | h1
  · have : j = 0 := by omega
    subst this; exact h0
  · have : j = 1 := by omega
    subst this; exact h.ok_second

/-- a straight-line instruction with one operand (also `Call n`: pops the callee and `n`
    arguments, pushes the result) -/
theorem okwin_fall2 {pc x a b : Nat} {i : α} (h : G.At pc [some i, none] (r2 x))
    (hk : (io i).kind = .fall a b) (hsz : (io i).size = 2) (ha : a ≤ x)
    (ht : G.Tgt (pc + 2) (x - a + b)) : G.OkWin pc 2 := by
  refine h.okwin_two (ok_ins (l := [(pc + 2, x - a + b)]) h.insAt_two ?_ ?_)
  · simp only [succs, hk, hsz, ha, if_true]
  · intro q hq
    simp only [List.mem_singleton] at hq
    subst hq; exact ht

/-- `Copy k` / `Swap k` -/
theorem okwin_need2 {pc x a b : Nat} {i : α} (h : G.At pc [some i, none] (r2 x))
    (hk : (io i).kind = .need a b) (hsz : (io i).size = 2) (ha : a ≤ x)
    (ht : G.Tgt (pc + 2) (x + b)) : G.OkWin pc 2 := by
  refine h.okwin_two (ok_ins (l := [(pc + 2, x + b)]) h.insAt_two ?_ ?_)
  · simp only [succs, hk, hsz, ha, if_true]
  · intro q hq
    simp only [List.mem_singleton] at hq
    subst hq; exact ht

/-- `JumpForward d` -/
theorem okwin_jumpF {pc x d : Nat} {i : α} (h : G.At pc [some i, none] (r2 x)) (hk : (io i).kind = .jumpF d)
    (ht : G.Tgt (pc + d) x) : G.OkWin pc 2 := by
  refine h.okwin_two (ok_ins (l := [(pc + d, x)]) h.insAt_two ?_ ?_)
  · simp only [succs, hk]
  · intro q hq
    simp only [List.mem_singleton] at hq
    subst hq; exact ht

/-- `JumpBackward d` -/
theorem okwin_jumpB {pc x d : Nat} {i : α} (h : G.At pc [some i, none] (r2 x)) (hk : (io i).kind = .jumpB d)
    (hd : d ≤ pc) (ht : G.Tgt (pc - d) x) : G.OkWin pc 2 := by
  refine h.okwin_two (ok_ins (l := [(pc - d, x)]) h.insAt_two ?_ ?_)
  · simp only [succs, hk, hd, if_true]
  · intro q hq
    simp only [List.mem_singleton] at hq
    subst hq; exact ht

/-- `PopJumpForwardIfFalse d` / `PopJumpForwardIfTrue d` -/
theorem okwin_cond {pc x d : Nat} {i : α} (h : G.At pc [some i, none] (r2 x))
    (hk : (io i).kind = .condF d) (hsz : (io i).size = 2) (hx : 1 ≤ x)
    (hj : G.Tgt (pc + d) (x - 1)) (hf : G.Tgt (pc + 2) (x - 1)) : G.OkWin pc 2 := by
  refine h.okwin_two (ok_ins (l := [(pc + d, x - 1), (pc + 2, x - 1)]) h.insAt_two ?_ ?_)
  · simp only [succs, hk, hsz, hx, if_true]
  · intro q hq
    simp only [List.mem_cons, List.not_mem_nil, or_false] at hq
    rcases hq with hq | hq
    · subst hq; exact hj
    · subst hq; exact hf

/-- `ReturnValue`: the result must be there (`1 ≤ x`); whatever ELSE the activation still has
    on its stack (`x - 1` pending operands: a `return` inside an operand position, a loop or a
    `switch`) is irrelevant, because the instruction has no successor in this code object — the
    frame is left and `resumeFrame` resets `sp` to the caller's base -/
theorem okwin_ret {pc x : Nat} {i : α} (h : G.At pc [some i] (r1 x)) (hk : (io i).kind = .ret) (hx : 1 ≤ x) :
    G.OkWin pc 1 := by
  intro j hj
  have : j = 0 := by omega
  subst this
  refine ok_ins (l := []) h.insAt_one ?_ ?_
  · simp only [succs, hk, hx, if_true]
  · intro q hq; cases hq

/-! ### the common one-instruction shapes -/

theorem ok_push1 {pc x : Nat} {i : α} (h : G.At pc [some i] (r1 x)) (hk : (io i).kind = .fall 0 1)
    (hsz : (io i).size = 1) (ht : G.Tgt (pc + 1) (x + 1)) : G.OkWin pc 1 :=
  okwin_fall1 h hk hsz (Nat.zero_le _) (ht.cast rfl (by omega))

theorem ok_push2 {pc x : Nat} {i : α} (h : G.At pc [some i, none] (r2 x)) (hk : (io i).kind = .fall 0 1)
    (hsz : (io i).size = 2) (ht : G.Tgt (pc + 2) (x + 1)) : G.OkWin pc 2 :=
  okwin_fall2 h hk hsz (Nat.zero_le _) (ht.cast rfl (by omega))

/-- a one-slot instruction that pops one value (`PopTop`) at height `x + 1` -/
theorem ok_pop1 {pc x : Nat} {i : α} (h : G.At pc [some i] (r1 (x + 1))) (hk : (io i).kind = .fall 1 0)
    (hsz : (io i).size = 1) (ht : G.Tgt (pc + 1) x) : G.OkWin pc 1 :=
  okwin_fall1 h hk hsz (by omega) (ht.cast rfl (by omega))

/-- a two-slot instruction that pops one value (`StoreGlobal`, `StoreFast`) at height `x + 1` -/
theorem ok_pop2 {pc x : Nat} {i : α} (h : G.At pc [some i, none] (r2 (x + 1))) (hk : (io i).kind = .fall 1 0)
    (hsz : (io i).size = 2) (ht : G.Tgt (pc + 2) x) : G.OkWin pc 2 :=
  okwin_fall2 h hk hsz (by omega) (ht.cast rfl (by omega))

/-- a binary operator at height `x + 2` -/
theorem ok_bin {pc x : Nat} {i : α} (h : G.At pc [some i, none] (r2 (x + 2))) (hk : (io i).kind = .fall 2 1)
    (hsz : (io i).size = 2) (ht : G.Tgt (pc + 2) (x + 1)) : G.OkWin pc 2 :=
  okwin_fall2 h hk hsz (by omega) (ht.cast rfl (by omega))

/-! ### assembling `check` -/

/-- `check` accepts the context's certificate when the code begins with an instruction at
    height 0, every offset passes, and the end-of-code entry is what the kind of code object
    demands: unreachable, or — main code only — exactly one value -/
theorem check_of_okwin (i0 : α) (h0 : G.code[0]? = some (some i0)) (hH0 : G.H[0]? = some 0)
    (hall : G.OkWin 0 G.code.length)
    (hend : G.hend = none ∨ (G.isMain = true ∧ G.hend = some 1)) : check G.C G.cert = true := by
  simp only [check, Bool.and_eq_true, beq_iff_eq, decide_eq_true_eq, List.all_eq_true, List.mem_range]
  refine ⟨⟨⟨⟨⟨?_, ?_⟩, ?_⟩, ?_⟩, ?_⟩, ?_⟩
  · rw [cert_size, C_size]
  · rw [C_size]; exact lt_of_code h0
  · have := cert_in h0 hH0
    simpa using this
  · rw [C_at h0]; rfl
  · intro pc hpc
    rw [C_size] at hpc
    have := hall pc hpc
    rw [Nat.zero_add] at this
    exact this
  · simp only [checkEnd, C_size, cert_end]
    rcases hend with h | ⟨hm, h⟩
    · rw [h]
    · rw [h]
      have : G.C.isMain = true := hm
      simp [this]

end Ctx

/-! ### operands the checker never reads -/

/-- rewrite every instruction of a code object -/
def Code.mapIns (f : Ins → Ins) (c : Code) : Code := { c with slots := c.slots.map (Option.map f) }

section mapIns
variable (f : Ins → Ins) (hf : ∀ i, (f i).kind = i.kind ∧ (f i).size = i.size)
include hf

theorem succs_mapIns (i : Ins) (pc h : Nat) : succs (f i) pc h = succs i pc h := by
  simp only [succs, (hf i).1, (hf i).2]

omit hf in
theorem mapIns_size (c : Code) : (c.mapIns f).size = c.size := by
  simp [Code.mapIns, Code.size]

omit hf in
theorem mapIns_at (c : Code) (pc : Nat) : (c.mapIns f).at pc = (c.at pc).map f := by
  simp only [Code.mapIns, Code.at, Array.getElem?_map]
  cases c.slots[pc]? with
  | none => rfl
  | some s => cases s <;> rfl

omit hf in
theorem okTarget_mapIns (c : Code) (cert : Cert) (p h : Nat) :
    okTarget (c.mapIns f) cert p h = okTarget c cert p h := by
  simp only [okTarget, mapIns_size, mapIns_at, Option.isSome_map]

theorem checkAt_mapIns (c : Code) (cert : Cert) (pc : Nat) :
    checkAt (c.mapIns f) cert pc = checkAt c cert pc := by
  simp only [checkAt, mapIns_at]
  cases cert[pc]? with
  | none => rfl
  | some x =>
    cases x with
    | none => rfl
    | some h =>
      cases c.at pc with
      | none => rfl
      | some i =>
        simp only [Option.map_some, succs_mapIns f hf]
        cases succs i pc h with
        | none => rfl
        | some l => simp only [okTarget_mapIns]

/-- rewriting instructions in a way that keeps `Ins.kind` and `Ins.size` (e.g. erasing pool /
    table / slot indices) does not change what `check` accepts -/
theorem check_mapIns (c : Code) (cert : Cert) : check (c.mapIns f) cert = check c cert := by
  have h1 : checkAt (c.mapIns f) cert = checkAt c cert := funext (checkAt_mapIns f hf c cert)
  have h2 : checkEnd (c.mapIns f) cert = checkEnd c cert := by
    simp only [checkEnd, mapIns_size]; rfl
  simp only [check, mapIns_size, mapIns_at, Option.isSome_map, h1, h2]

end mapIns

end Risor.C04
