import RisorModel.C04.Model
/-!
C04 — property theorems: an accepted certificate describes every execution.

The machine below is the height abstraction of vm/vm.go's `eval` loop for one frame:
a state is (offset, number of operands this frame has on the stack); an instruction with
effect `kind` moves it as `succs` says, where the outcome of a conditional jump or of an
iterator is unknown (both successors are possible) — so the theorems cover all control
paths through the bytecode, executed or not, and executions of any length.
-/
namespace Risor.C04

structure St where
  pc : Nat
  h : Nat
  deriving Repr

/-- one step of the frame's execution (height abstraction, nondeterministic branches) -/
inductive Step (c : Code) : St → St → Prop where
  | mk {s : St} {i : Ins} {l : List (Nat × Nat)} {p h' : Nat} :
      c.at s.pc = some i → succs i s.pc s.h = some l → (p, h') ∈ l → Step c s ⟨p, h'⟩

/-- states reachable from the frame's entry (offset 0, empty operand stack) -/
inductive Reach (c : Code) : St → Prop where
  | init : Reach c ⟨0, 0⟩
  | step {s s' : St} : Reach c s → Step c s s' → Reach c s'

theorem check_parts {c : Code} {cert : Cert} (hc : check c cert = true) :
    cert.size = c.size + 1 ∧ 0 < c.size ∧ cert[0]? = some (some 0) ∧
    (∀ pc, pc < c.size → checkAt c cert pc = true) ∧ checkEnd c cert = true := by
  simp only [check, Bool.and_eq_true, beq_iff_eq, decide_eq_true_eq, List.all_eq_true,
    List.mem_range] at hc
  obtain ⟨⟨⟨⟨⟨h1, h2⟩, h3⟩, _⟩, h5⟩, h6⟩ := hc
  exact ⟨h1, h2, h3, h5, h6⟩

/-- **Soundness of the checker**: if `check c cert` accepts, then in EVERY execution of the
    code object (any number of steps, any branch outcomes, any number of loop iterations) the
    operand-stack height at offset `pc` is exactly `cert[pc]`, it never exceeds `maxHeight`,
    and control stays inside the code (or at its end). -/
theorem check_sound (c : Code) (cert : Cert) (hc : check c cert = true) :
    ∀ s, Reach c s → s.pc ≤ c.size ∧ cert[s.pc]? = some (some s.h) ∧ s.h ≤ maxHeight := by
  obtain ⟨_, hpos, h0, hall, _⟩ := check_parts hc
  intro s hr
  induction hr with
  | init => exact ⟨Nat.zero_le _, h0, by simp [maxHeight]⟩
  | @step s s' hr hs ih =>
    obtain ⟨hpc, hcert, _⟩ := ih
    cases hs with
    | @mk i l p h' hi hl hmem =>
      have hlt : s.pc < c.size := by
        rcases Nat.lt_or_ge s.pc c.size with h | h
        · exact h
        · simp [Code.at, Code.size, Array.getElem?_eq_none h] at hi
      have := hall _ hlt
      simp only [checkAt, hcert, hi, hl, List.all_eq_true] at this
      have := this _ hmem
      simp only [okTarget, Bool.and_eq_true, decide_eq_true_eq, beq_iff_eq] at this
      exact ⟨this.1.1.1, this.1.1.2, this.1.2⟩

/-- **No underflow, no stray control**: at every reachable state inside the code there is
    an instruction and it has enough operands — the frame never pops below its base and
    control never lands on an operand slot or outside the code. -/
theorem no_underflow (c : Code) (cert : Cert) (hc : check c cert = true)
    (s : St) (hr : Reach c s) (hlt : s.pc < c.size) :
    ∃ i l, c.at s.pc = some i ∧ succs i s.pc s.h = some l := by
  obtain ⟨_, _, _, hall, _⟩ := check_parts hc
  obtain ⟨_, hcert, _⟩ := check_sound c cert hc s hr
  have := hall _ hlt
  simp only [checkAt, hcert] at this
  cases hi : c.at s.pc with
  | none => simp [hi] at this
  | some i =>
    cases hl : succs i s.pc s.h with
    | none => simp [hi, hl] at this
    | some l => exact ⟨i, l, rfl, hl⟩

/-- **Iteration count cannot grow the stack**: two visits to the same offset — e.g. the
    head of a loop on its first and on its ten-millionth iteration — see the same height. -/
theorem loop_height_constant (c : Code) (cert : Cert) (hc : check c cert = true)
    (s t : St) (hs : Reach c s) (ht : Reach c t) (hpc : s.pc = t.pc) : s.h = t.h := by
  have a := (check_sound c cert hc s hs).2.1
  have b := (check_sound c cert hc t ht).2.1
  rw [hpc] at a
  rw [a] at b
  exact Option.some.inj (Option.some.inj b)

/-- **A finished evaluation leaves exactly its result**: control can reach the end of the
    code only in the main code object and then with exactly one value on the stack. -/
theorem finished_run_leaves_result (c : Code) (cert : Cert) (hc : check c cert = true)
    (s : St) (hr : Reach c s) (hend : s.pc = c.size) : c.isMain = true ∧ s.h = 1 := by
  obtain ⟨_, _, _, _, hend'⟩ := check_parts hc
  obtain ⟨_, hcert, _⟩ := check_sound c cert hc s hr
  rw [hend] at hcert
  simp only [checkEnd, hcert, Bool.and_eq_true, beq_iff_eq] at hend'
  exact hend'

/-- a `RETURN_VALUE` is only ever executed with its result on the stack -/
theorem return_has_value (c : Code) (cert : Cert) (hc : check c cert = true)
    (s : St) (hr : Reach c s) (i : Ins) (hi : c.at s.pc = some i) (hk : i.kind = .ret) : 1 ≤ s.h := by
  have hlt : s.pc < c.size := by
    rcases Nat.lt_or_ge s.pc c.size with h | h
    · exact h
    · simp [Code.at, Code.size, Array.getElem?_eq_none h] at hi
  obtain ⟨j, l, hj, hl⟩ := no_underflow c cert hc s hr hlt
  rw [hi] at hj
  cases hj
  simp only [succs, hk] at hl
  split at hl
  · assumption
  · cases hl

/-! ### The checker rejects leaking loops for every certificate (non-vacuity in the other
direction), and accepts balanced ones. Offsets: opcode slots and operand slots. -/

/-- `x := 0; for { x }`-like balanced loop: NIL; POP_TOP; JUMP_BACKWARD 2; then unreachable -/
def demoBalanced : Code :=
  { isMain := true, slots := #[some ⟨.nil_, 0, 0⟩, some ⟨.popTop, 0, 0⟩, some ⟨.jumpBackward, 2, 0⟩, none] }

example : check demoBalanced #[some 0, some 1, some 0, none, none] = true := by decide

/-- the shape of the known defect: a value pushed per iteration and never popped -/
def demoLeak : Code :=
  { isMain := true, slots := #[some ⟨.nil_, 0, 0⟩, some ⟨.jumpBackward, 1, 0⟩, none] }

/-- no certificate whatsoever makes the checker accept the leaking loop -/
theorem leak_rejected (cert : Cert) : check demoLeak cert = false := by
  cases hc : check demoLeak cert with
  | false => rfl
  | true =>
    exfalso
    have r0 : Reach demoLeak ⟨0, 0⟩ := .init
    have r1 : Reach demoLeak ⟨1, 1⟩ := .step r0 (.mk (i := ⟨.nil_, 0, 0⟩) (l := [(1, 1)]) rfl rfl (by simp))
    have r2 : Reach demoLeak ⟨0, 1⟩ := .step r1 (.mk (i := ⟨.jumpBackward, 1, 0⟩) (l := [(0, 1)]) rfl rfl (by simp))
    have := loop_height_constant demoLeak cert hc _ _ r0 r2 rfl
    simp at this

end Risor.C04
