import RisorModel.C04.CloCertLemmas
import RisorModel.C01.CloProps
/-!
C04 on C01's CLOSURE fragment F5 — property theorems.

`compile_balanced` (DESIGN.md C04: statements are stack-neutral, expressions push exactly one
value, the stack height of every code object is statically determined), for all programs of the
closure fragment at once.  `Clo.compClo p` compiles a program of the fragment (`inClo`; the theorems
need only its shape `inCloShape`: everything of F1–F4 in the main code AND in function bodies, plus
anonymous function literals as EXPRESSIONS anywhere in a function body — returned, stored, passed as
arguments, called immediately — whose bodies read and write the parameters and locals of the
enclosing function) into SEVERAL code objects: the main code, one per function of the main code and
one per literal nested in a function.  EVERY one of them is accepted by the verified checker
`check`, with the certificate `certClo p` computed from the syntax tree alone (`CloC.hts`,
`CloC.htsFn`):

  * a literal without captures is one `LoadConst`; a literal with `k` captures is `k` times
    `MakeCell` (each pushes one cell: heights `h, h+1, …, h+k-1`), then `LoadClosure fn k` at
    height `h + k`, which pops the `k` cells and pushes ONE closure: the literal ends at `h + 1`
    like every expression;
  * `LoadFree` pushes one value, `StoreFree` pops one, like the accesses to locals and globals;
  * a closure's body starts at height 0 whatever the caller (possibly a function that received the
    closure as an argument, long after the maker returned) has on its stack, and it leaves only
    through `ReturnValue` (`clo_body_returns_one`).

The effect the checker's table (`Ins.kind`) gives the four closure instructions is the effect of
C01's machine (`Clo.execIns`) — `makeCell_effect`, `loadClosure_effect`, `loadFree_effect`,
`storeFree_effect`; `execIns_step` says the same of EVERY instruction of the fragment: one step of
the machine inside an activation is one `Step` of the height abstraction `check_sound` is about.

Combined with `check_sound`: in every execution of every code object, of any length, the
operand-stack height at an offset is the one the syntax tree names (`clo_heights`), no instruction
underflows its frame (`clo_no_underflow`), no loop in the main code, in a function or in a closure
body can grow the stack (`clo_loop_heights`), and a finished run leaves exactly its result
(`clo_finished_run_leaves_result`).

`clo_machine_heights` / `clo_machine_no_underflow` carry this from one frame to WHOLE runs of C01's
machine (`Clo.mstep` on `compClo p`: activations, suspended callers, closures called after their
makers returned): in every state the machine reaches, the running activation and every suspended
caller are at `Reach` states of their code objects.

The one hypothesis besides membership in the fragment is `fitsClo p`: the operand NESTING of every
code object stays within the frame's height limit; `CloC.depthProg p ≤ maxHeight`, a bound by
recursion on the syntax, suffices (`clo_compile_balanced_of_depth`), and the guard cannot be dropped
(`clo_compile_balanced_needs_fits`; the full statement without it is `clo_compile_balanced_full`).

The objects of the theorems, `CloC.codes p`, are compared with the real compiler's bytecode on
every run: `compClo p` assembled = `compiler.Compile`, every code object (C01's link A), and
`eraseIdxC real = toC04 …` per code object together with acceptance of the syntax-tree
certificate by `check` on the REAL bytecode and the comparison of the certified heights with the
real VM's in every frame (`CloCertOracle.lean`, harness/c04clo.go).  `check_eraseIdxC` shows that
the erased operands are irrelevant to `check`.
-/
namespace Risor.C04
open Risor.C01 Risor.C01.Clo

/-! ### the code objects -/

/-- `CloC.codes p` IS the list of all code objects of `compClo p`: the main code, then the code
    of every compiled function (functions of the main code and nested literals), each as a C04
    code object -/
theorem clo_codes_eq (p : N) :
    CloC.codes p = CloC.toC04 true (compClo p).main :: (compClo p).funs.map (fun fc => CloC.toC04 false fc.code) := by
  simp only [CloC.codes, CloC.mainCode, compClo, List.map_map]
  rfl

/-- one certificate per code object -/
theorem certClo_length (p : N) : (certClo p).length = (CloC.codes p).length := by
  simp [certClo, CloC.codes]

theorem clo_shape_parts (p : N) (hin : inCloShape p = true) :
    wf p = true ∧ escapes p = false ∧ bodiesWF p = true ∧ ∃ s, p = .prog s := by
  cases p with
  | prog s =>
    simp only [inCloShape, Bool.and_eq_true] at hin
    have h := hin.1
    simp only [wf, Bool.and_eq_true, Bool.not_eq_true'] at h
    exact ⟨hin.1, by simpa [escapes] using h.1.2, hin.2, s, rfl⟩
  | _ => simp [inCloShape] at hin

theorem fitsClo_parts (p : N) (hfit : fitsClo p = true) :
    (CloC.hts Sc.main 0 p).all (· ≤ maxHeight) = true ∧
      ∀ d, d ∈ funsOf p → (CloC.htsFn d.sc d.body).all (· ≤ maxHeight) = true := by
  simp only [fitsClo, Bool.and_eq_true] at hfit
  exact ⟨hfit.1, fun d hd => List.all_eq_true.mp hfit.2 d hd⟩

/-! ### the certificates computed from the syntax tree are accepted (on the shape of the fragment) -/

/-- the main code object with the certificate `CloC.mainCert p` -/
theorem clo_main_cert_accepted (p : N) (hin : inCloShape p = true) (hfit : fitsClo p = true) :
    check (CloC.mainCode p) (CloC.mainCert p) = true := by
  obtain ⟨hw, hesc, _, s, hp⟩ := clo_shape_parts p hin
  let G := CloC.mainCtx p (fitsClo_parts p hfit).1
  have hC : CloC.mainCode p = G.C := rfl
  have hcert : CloC.mainCert p = G.cert := rfl
  have hcode : G.code = comp Sc.main 0 0 p := rfl
  have hH : G.H = CloC.hts Sc.main 0 p := rfl
  obtain ⟨i, c, t, e1, e2⟩ := CloC.head_comp (ls := Sc.main) p hw 0 0 0
  have hsize : G.code.length = size Sc.main p := by rw [hcode, comp_length]
  have h0 : G.code[0]? = some (some i) := by rw [hcode, e1]; rfl
  have hH0 : G.H[0]? = some 0 := by rw [hH, e2]; rfl
  have hat : G.At 0 (comp Sc.main 0 0 p) (CloC.hts Sc.main 0 p) := ⟨Win.self _, Win.self _⟩
  have hex : CloC.exitD p = 1 := by subst hp; simp [CloC.exitD, isUnitNode]
  have hall := (CloC.ok_all (ls := Sc.main) G p).1 hw 0 0 0 0 hat
    (.inr ⟨by rw [hsize]; omega, by rw [hex]; rfl⟩) (by intro h; rw [hesc] at h; cases h)
  rw [hC, hcert]
  refine Ctx.check_of_okwin i h0 hH0 ?_ (.inr ⟨rfl, rfl⟩)
  rw [hsize]
  exact hall

/-- the code object of a function literal — a function of the main code or a literal nested in
    a function body, with or without captures — with the certificate `CloC.fnCert d` -/
theorem clo_fn_cert_accepted (p : N) (hin : inCloShape p = true) (hfit : fitsClo p = true)
    (d : FDecl) (hd : d ∈ funsOf p) : check (CloC.fnCode d) (CloC.fnCert d) = true := by
  obtain ⟨_, _, hb, _⟩ := clo_shape_parts p hin
  have hwb : wfBody d.body = true := by
    unfold bodiesWF at hb
    exact List.all_eq_true.mp hb d hd
  simp only [wfBody, Bool.and_eq_true, Bool.not_eq_true'] at hwb
  obtain ⟨⟨hl, hx⟩, hw⟩ := hwb
  let G := CloC.fnCtx d ((fitsClo_parts p hfit).2 d hd)
  have hC : CloC.fnCode d = G.C := rfl
  have hcert : CloC.fnCert d = G.cert := rfl
  have hcode : G.code = compFnStmts d.sc d.body := rfl
  have hH : G.H = CloC.htsFn d.sc d.body := rfl
  obtain ⟨i, c, t, e1, e2⟩ := CloC.head_fnStmts d.sc d.body hl hw
  have h0 : G.code[0]? = some (some i) := by rw [hcode, e1]; rfl
  have hH0 : G.H[0]? = some 0 := by rw [hH, e2]; rfl
  have hat : G.At 0 (compFnStmts d.sc d.body) (CloC.htsFn d.sc d.body) := ⟨Win.self _, Win.self _⟩
  rw [hC, hcert]
  exact Ctx.check_of_okwin i h0 hH0 (CloC.ok_fnStmts G d.sc d.body hl hw hx 0 hat) (.inl rfl)

theorem mem_zip_self {α : Type} : ∀ (l : List α) (a b : α), (a, b) ∈ l.zip l → a = b ∧ a ∈ l := by
  intro l
  induction l with
  | nil => intro a b h; cases h
  | cons y ys ih =>
    intro a b h
    simp only [List.zip_cons_cons, List.mem_cons, Prod.mk.injEq] at h
    rcases h with ⟨h1, h2⟩ | h
    · exact ⟨by rw [h1, h2], by rw [h1]; exact List.mem_cons_self ..⟩
    · exact ⟨(ih a b h).1, List.mem_cons_of_mem _ (ih a b h).2⟩

/-- every code object, paired with its certificate in `certClo p`, is accepted -/
theorem clo_certs_accepted (p : N) (hin : inCloShape p = true) (hfit : fitsClo p = true) :
    ∀ x, x ∈ (CloC.codes p).zip (certClo p) → check x.1 x.2 = true := by
  intro x hx
  simp only [CloC.codes, certClo, List.zip_cons_cons, List.mem_cons] at hx
  rcases hx with hx | hx
  · subst hx; exact clo_main_cert_accepted p hin hfit
  · rw [List.zip_map, List.mem_map] at hx
    obtain ⟨⟨d1, d2⟩, hmem, rfl⟩ := hx
    obtain ⟨rfl, hd⟩ := mem_zip_self _ _ _ hmem
    exact clo_fn_cert_accepted p hin hfit d1 hd

/-! ### `compile_balanced` for the closure fragment -/

/-- the full statement, WITHOUT the nesting guard: false (`clo_compile_balanced_needs_fits`) — an
    expression nested deeper than the frame's height limit overflows whatever the compiler does -/
def clo_compile_balanced_full : Prop :=
  ∀ p, inClo p = true → ∀ x, x ∈ (CloC.codes p).zip (certClo p) → check x.1 x.2 = true

/-- **`compile_balanced` for the closure fragment**: for every program of C01's closure fragment
    F5 whose operand nesting fits the frame, EVERY code object of `compClo p` — the main code, every
    function of the main code and every literal nested in a function body (`CloC.codes p`, which IS
    the list of code objects of `compClo p`: `clo_codes_eq`) — carries the certificate `certClo p`
    computes for it from the syntax tree (one per code object, in the same order), and the verified
    checker accepts it. -/
theorem clo_compile_balanced (p : N) (hin : inClo p = true) (hfit : fitsClo p = true) :
    (certClo p).length = (CloC.codes p).length ∧
    ∀ x, x ∈ (CloC.codes p).zip (certClo p) → check x.1 x.2 = true :=
  ⟨certClo_length p, clo_certs_accepted p (inClo_shape p hin) hfit⟩

/-- the same on the SHAPE of the fragment alone (no scoping condition is needed: the heights do
    not depend on which variable an instruction names) -/
theorem clo_compile_balanced_shape (p : N) (hin : inCloShape p = true) (hfit : fitsClo p = true) :
    ∀ c, c ∈ CloC.codes p → ∃ cert, check c cert = true := by
  intro c hc
  simp only [CloC.codes, List.mem_cons, List.mem_map] at hc
  rcases hc with hc | ⟨d, hd, hc⟩
  · subst hc; exact ⟨_, clo_main_cert_accepted p hin hfit⟩
  · subst hc; exact ⟨_, clo_fn_cert_accepted p hin hfit d hd⟩

/-- every code object has an accepted certificate -/
theorem clo_compile_balanced_exists (p : N) (hin : inClo p = true) (hfit : fitsClo p = true) :
    ∀ c, c ∈ CloC.codes p → ∃ cert, check c cert = true :=
  clo_compile_balanced_shape p (inClo_shape p hin) hfit

/-- the same, spelled on `compClo p` itself: its main code and the code of each of its compiled
    functions (top-level functions and nested literals alike) -/
theorem clo_compile_balanced_compClo (p : N) (hin : inClo p = true) (hfit : fitsClo p = true) :
    (∃ cert, check (CloC.toC04 true (compClo p).main) cert = true) ∧
    ∀ fc, fc ∈ (compClo p).funs → ∃ cert, check (CloC.toC04 false fc.code) cert = true := by
  have h := clo_compile_balanced_exists p hin hfit
  rw [clo_codes_eq] at h
  refine ⟨h _ (List.mem_cons_self ..), ?_⟩
  intro fc hfc
  exact h _ (List.mem_cons_of_mem _ (List.mem_map.mpr ⟨fc, hfc, rfl⟩))

/-- **The same with a purely syntactic guard**: `CloC.depthProg p`, the operand nesting depth of
    the main code and of every function body by recursion on the syntax (operators holding their
    left value, a `switch` holding its subject, a call holding its callee and earlier arguments,
    a literal holding the cells of its captures), within the frame's limit.  The iteration count of
    loops, the recursion depth of calls and the number of closures made play no role. -/
theorem clo_compile_balanced_of_depth (p : N) (hin : inClo p = true) (hd : CloC.depthProg p ≤ maxHeight) :
    ∀ x, x ∈ (CloC.codes p).zip (certClo p) → check x.1 x.2 = true :=
  (clo_compile_balanced p hin (CloC.fitsClo_of_depth p hd)).2

/-! ### corollaries: every execution of every code object -/

/-- **Heights are those of the syntax tree**: in every execution (any number of steps, any branch
    outcomes, any number of loop iterations) of any code object of the program, the operand-stack
    height at an offset is the one its certificate in `certClo p` names -/
theorem clo_heights (p : N) (hin : inClo p = true) (hfit : fitsClo p = true)
    (x : Code × Cert) (hx : x ∈ (CloC.codes p).zip (certClo p)) (s : St) (hr : Reach x.1 s) :
    s.pc ≤ x.1.size ∧ x.2[s.pc]? = some (some s.h) ∧ s.h ≤ maxHeight :=
  check_sound _ _ ((clo_compile_balanced p hin hfit).2 x hx) s hr

/-- **No underflow**: no instruction of any code object — main code, function, closure body — ever
    pops below its frame's base (`MakeCell` needs nothing, `LoadClosure fn k` always finds its `k`
    cells, `StoreFree` its value), control never lands on an operand slot, and the frame's height
    never exceeds `maxHeight` -/
theorem clo_no_underflow (p : N) (hin : inClo p = true) (hfit : fitsClo p = true)
    (c : Code) (hc : c ∈ CloC.codes p) (s : St) (hr : Reach c s) :
    s.h ≤ maxHeight ∧ (s.pc < c.size → ∃ i l, c.at s.pc = some i ∧ succs i s.pc s.h = some l) := by
  obtain ⟨cert, hcert⟩ := clo_compile_balanced_exists p hin hfit c hc
  exact ⟨(check_sound c cert hcert s hr).2.2, no_underflow c cert hcert s hr⟩

/-- **Every loop head has one height**: in every execution of ANY code object of ANY program of
    the closure fragment, two visits of one offset — the head of a loop in a closure's body on its
    first and on its ten-millionth iteration, however many closures the loop makes — see the same
    operand-stack height. -/
theorem clo_loop_heights (p : N) (hin : inClo p = true) (hfit : fitsClo p = true)
    (c : Code) (hc : c ∈ CloC.codes p) (s t : St) (hs : Reach c s) (ht : Reach c t) (hpc : s.pc = t.pc) :
    s.h = t.h := by
  obtain ⟨cert, hcert⟩ := clo_compile_balanced_exists p hin hfit c hc
  exact loop_height_constant c cert hcert s t hs ht hpc

/-- **A finished run leaves exactly its result**: control reaches the end of a code object only in
    the main code, and then with exactly one value on the stack; a function or closure body never
    falls off its end -/
theorem clo_finished_run_leaves_result (p : N) (hin : inClo p = true) (hfit : fitsClo p = true)
    (c : Code) (hc : c ∈ CloC.codes p) (s : St) (hr : Reach c s) (hend : s.pc = c.size) :
    c.isMain = true ∧ s.h = 1 := by
  obtain ⟨cert, hcert⟩ := clo_compile_balanced_exists p hin hfit c hc
  exact finished_run_leaves_result c cert hcert s hr hend

/-- the main code, with its certificate named -/
theorem clo_main_heights (p : N) (hin : inClo p = true) (hfit : fitsClo p = true) (s : St)
    (hr : Reach (CloC.mainCode p) s) :
    s.pc ≤ (CloC.mainCode p).size ∧ (CloC.mainCert p)[s.pc]? = some (some s.h) ∧ s.h ≤ maxHeight :=
  check_sound _ _ (clo_main_cert_accepted p (inClo_shape p hin) hfit) s hr

/-- function and closure bodies: whatever the caller's stack, the callee's own operand count at
    an offset is the one `CloC.htsFn` names -/
theorem clo_fn_heights (p : N) (hin : inClo p = true) (hfit : fitsClo p = true) (d : FDecl)
    (hd : d ∈ funsOf p) (s : St) (hr : Reach (CloC.fnCode d) s) :
    s.pc ≤ (CloC.fnCode d).size ∧ (CloC.fnCert d)[s.pc]? = some (some s.h) ∧ s.h ≤ maxHeight :=
  check_sound _ _ (clo_fn_cert_accepted p (inClo_shape p hin) hfit d hd) s hr

/-- a slot of a translated code object holds the translation of an instruction of the fragment -/
theorem clo_toC04_at {m : Bool} {code : Clo.Code} {pc : Nat} {i : Ins} (h : (CloC.toC04 m code).at pc = some i) :
    ∃ j, code[pc]? = some (some j) ∧ i = CloC.insOf j := by
  simp only [CloC.toC04, Code.at, List.getElem?_toArray, List.getElem?_map] at h
  cases hc : code[pc]? with
  | none => simp [hc] at h
  | some s =>
    cases s with
    | none => simp [hc] at h
    | some j => simp [hc] at h; exact ⟨j, rfl, h.symm⟩

/-- an instruction without successor is a `ReturnValue` (the fragment's code has no `Halt`) -/
theorem clo_no_succ_is_ret (j : Clo.FIns) (pc h : Nat) (hs : succs (CloC.insOf j) pc h = some []) :
    (CloC.insOf j).kind = .ret := by
  cases j <;> simp [succs, CloC.insOf, Ins.kind] at hs ⊢ <;> (try split at hs) <;> simp_all

/-- **A function or closure body returns exactly through `ReturnValue`, with its result on the
    stack**: control never falls off the end of the code; at every reachable state there is an
    instruction with enough operands; a state without successor is a `ReturnValue`, and every
    `ReturnValue` is executed with at least one value. -/
theorem clo_body_returns_one (p : N) (hin : inClo p = true) (hfit : fitsClo p = true) (d : FDecl)
    (hd : d ∈ funsOf p) (s : St) (hr : Reach (CloC.fnCode d) s) :
    s.pc < (CloC.fnCode d).size ∧
    ∃ i l, (CloC.fnCode d).at s.pc = some i ∧ succs i s.pc s.h = some l ∧
      (l = [] → i.kind = .ret) ∧ (i.kind = .ret → 1 ≤ s.h) := by
  have hc := clo_fn_cert_accepted p (inClo_shape p hin) hfit d hd
  have hle := (check_sound _ _ hc s hr).1
  have hlt : s.pc < (CloC.fnCode d).size := by
    rcases Nat.lt_or_ge s.pc (CloC.fnCode d).size with h | h
    · exact h
    · have := (finished_run_leaves_result _ _ hc s hr (by omega)).1
      cases this
  obtain ⟨i, l, hi, hl⟩ := no_underflow _ _ hc s hr hlt
  refine ⟨hlt, i, l, hi, hl, ?_, fun hk => return_has_value _ _ hc s hr i hi hk⟩
  intro hnil
  obtain ⟨j, _, rfl⟩ := clo_toC04_at hi
  rw [hnil] at hl
  exact clo_no_succ_is_ret j _ _ hl

/-! ### the checker's effect table agrees with the machine of `Clo.lean` on the closure instructions

`Ins.kind` gives `MAKE_CELL` the effect `.fall 0 1`, `LOAD_CLOSURE c n` the effect `.fall n 1`,
`LOAD_FREE` `.fall 0 1`, `STORE_FREE` `.fall 1 0`; `succs` turns a kind into the successor
`(pc', height')`.  Each lemma says: whenever `Clo.execIns` executes the instruction, the machine's
next position and operand-stack length are EXACTLY the checker's successor — and where the checker
sees an underflow (`succs = none`) the machine does not execute the instruction either. -/

theorem popCells_length : ∀ (n : Nat) (s : List V) (acc cs : List Cell) (rest : List V),
    popCells n s acc = some (cs, rest) → s.length = n + rest.length
  | 0, s, acc, cs, rest, h => by simp only [popCells, Option.some.injEq, Prod.mk.injEq] at h; rw [h.2]; omega
  | n + 1, [], acc, cs, rest, h => by simp [popCells] at h
  | n + 1, v :: s, acc, cs, rest, h => by
    cases v with
    | cell a x =>
      simp only [popCells] at h
      have := popCells_length n s _ cs rest h
      simp only [List.length_cons]; omega
    | _ => simp [popCells] at h

theorem popCells_short : ∀ (n : Nat) (s : List V) (acc : List Cell), s.length < n → popCells n s acc = none
  | 0, s, acc, h => by omega
  | n + 1, [], acc, _ => rfl
  | n + 1, v :: s, acc, h => by
    cases v with
    | cell a x =>
      simp only [popCells]
      exact popCells_short n s _ (by simp only [List.length_cons] at h; omega)
    | _ => rfl

/-- `MakeCell x 0`: always executes; pops nothing, pushes ONE value (the cell) -/
theorem makeCell_effect (x : String) (c : Cfg) :
    ∃ c', execIns (.makeCell x) c = .ok c' ∧ c'.stk.length = c.stk.length + 1 ∧
      succs (CloC.insOf (.makeCell x)) c.pc c.stk.length = some [(c'.pc, c'.stk.length)] := by
  refine ⟨{ c with pc := c.pc + 3, stk := .cell c.σ.act.id x :: c.stk }, ?_, rfl, ?_⟩
  · simp [execIns]
  · simp [succs, CloC.insOf, Ins.kind, Ins.size, Op.operands]

/-- `LoadFree x`: always executes; pops nothing, pushes ONE value -/
theorem loadFree_effect (x : String) (c : Cfg) :
    ∃ c', execIns (.loadFree x) c = .ok c' ∧ c'.stk.length = c.stk.length + 1 ∧
      succs (CloC.insOf (.loadFree x)) c.pc c.stk.length = some [(c'.pc, c'.stk.length)] := by
  refine ⟨{ c with pc := c.pc + 2, stk := c.σ.sh.cells.get (c.σ.act.cellOf x).1 (c.σ.act.cellOf x).2 :: c.stk }, ?_, rfl, ?_⟩
  · simp [execIns]
  · simp [succs, CloC.insOf, Ins.kind, Ins.size, Op.operands]

/-- `StoreFree x`: executes exactly when the checker sees no underflow; pops ONE value -/
theorem storeFree_effect (x : String) (c : Cfg) :
    (∀ c', execIns (.storeFree x) c = .ok c' → c'.stk.length + 1 = c.stk.length ∧
      succs (CloC.insOf (.storeFree x)) c.pc c.stk.length = some [(c'.pc, c'.stk.length)]) ∧
    ((∃ c', execIns (.storeFree x) c = .ok c') ↔ succs (CloC.insOf (.storeFree x)) c.pc c.stk.length ≠ none) := by
  obtain ⟨pc, stk, σ⟩ := c
  cases stk with
  | nil => simp [execIns, succs, CloC.insOf, Ins.kind]
  | cons v s =>
    simp [execIns, succs, CloC.insOf, Ins.kind, Ins.size, Op.operands]

/-- `LoadClosure fn n`: whenever it executes it popped `n` values (the cells) and pushed ONE (the
    closure); with fewer than `n` values — where the checker sees an underflow — it does not execute -/
theorem loadClosure_effect (k : FnId) (n : Nat) (c : Cfg) :
    (∀ c', execIns (.loadClosure k n) c = .ok c' → n ≤ c.stk.length ∧ c'.stk.length = c.stk.length - n + 1 ∧
      succs (CloC.insOf (.loadClosure k n)) c.pc c.stk.length = some [(c'.pc, c'.stk.length)]) ∧
    (succs (CloC.insOf (.loadClosure k n)) c.pc c.stk.length = none → ∀ c', execIns (.loadClosure k n) c ≠ .ok c') := by
  obtain ⟨pc, stk, σ⟩ := c
  have hex : execIns (.loadClosure k n) ⟨pc, stk, σ⟩ =
      (match popCells n stk [] with
       | some (cs, rest) =>
         .ok { pc := pc + 3, stk := .clo σ.sh.next k cs :: rest, σ := { σ with sh := { σ.sh with next := σ.sh.next + 1 } } }
       | none => .error (.err "eval")) := by
    cases stk <;> rfl
  refine ⟨?_, ?_⟩
  · intro c' h
    rw [hex] at h
    cases hp : popCells n stk [] with
    | none => simp [hp] at h
    | some r =>
      obtain ⟨cs, rest⟩ := r
      simp only [hp, Except.ok.injEq] at h
      subst h
      have hl := popCells_length n stk [] cs rest hp
      have hle : n ≤ stk.length := by omega
      refine ⟨hle, by simp only [List.length_cons]; omega, ?_⟩
      simp only [succs, CloC.insOf, Ins.kind, Ins.size, Op.operands, hle, ↓reduceIte, List.length_cons]
      have : stk.length - n + 1 = rest.length + 1 := by omega
      rw [this]
  · intro hs c' h
    have hlt : stk.length < n := by
      simp only [succs, CloC.insOf, Ins.kind] at hs
      split at hs
      · cases hs
      · omega
    rw [hex, popCells_short n stk [] hlt] at h
    cases h

/-- **One step of C01's machine inside an activation is one step of the height abstraction**, for
    EVERY instruction of the fragment (`Call` / `ReturnValue` are not executed by `execIns`: they
    switch activations; a backward jump must stay inside the code, which `check` verifies): the
    machine's next position and operand-stack length are among the successors `succs` computes from
    `Ins.kind` — so `check_sound`'s `Reach` covers every run of `Clo.step` on a code object. -/
theorem execIns_step (i : Clo.FIns) (c c' : Cfg) (h : execIns i c = .ok c') (hjb : ∀ d, i = .jb d → d ≤ c.pc) :
    ∃ l, succs (CloC.insOf i) c.pc c.stk.length = some l ∧ (c'.pc, c'.stk.length) ∈ l := by
  obtain ⟨pc, stk, σ⟩ := c
  cases i with
  | makeCell x =>
    obtain ⟨c2, h1, _, h3⟩ := makeCell_effect x ⟨pc, stk, σ⟩
    rw [h1] at h; cases h
    exact ⟨_, h3, by simp⟩
  | loadFree x =>
    obtain ⟨c2, h1, _, h3⟩ := loadFree_effect x ⟨pc, stk, σ⟩
    rw [h1] at h; cases h
    exact ⟨_, h3, by simp⟩
  | storeFree x =>
    exact ⟨_, ((storeFree_effect x ⟨pc, stk, σ⟩).1 c' h).2, by simp⟩
  | loadClosure k n =>
    exact ⟨_, ((loadClosure_effect k n ⟨pc, stk, σ⟩).1 c' h).2.2, by simp⟩
  | jb d =>
    have hd := hjb d rfl
    simp only [execIns, Except.ok.injEq] at h
    subst h
    exact ⟨[(pc - d, stk.length)], by simp only [succs, CloC.insOf, Ins.kind]; simp only at hd; simp [hd], by simp⟩
  | call n => cases stk <;> simp [execIns] at h
  | ret => cases stk <;> simp [execIns] at h
  | copy k =>
    simp only [execIns] at h
    cases hk : stk[k]? with
    | none => simp [hk] at h
    | some v =>
      simp only [hk, Except.ok.injEq] at h
      subst h
      have hlt : k < stk.length := by
        rcases Nat.lt_or_ge k stk.length with h1 | h1
        · exact h1
        · rw [List.getElem?_eq_none h1] at hk; cases hk
      exact ⟨[(pc + 2, stk.length + 1)], by simp [succs, CloC.insOf, Ins.kind, Ins.size, Op.operands]; omega, by simp⟩
  | swap k =>
    cases stk with
    | nil => simp [execIns] at h
    | cons top s =>
      simp only [execIns] at h
      by_cases hk0 : (k == 0) = true
      · simp only [hk0, ↓reduceIte, Except.ok.injEq] at h
        subst h
        have : k = 0 := by simpa using hk0
        subst this
        exact ⟨[(pc + 2, s.length + 1)], by simp [succs, CloC.insOf, Ins.kind, Ins.size, Op.operands], by simp⟩
      · simp only [hk0, Bool.false_eq_true, ↓reduceIte] at h
        cases hk : s[k - 1]? with
        | none => simp [hk] at h
        | some other =>
          simp only [hk, Except.ok.injEq] at h
          subst h
          have hlt : k - 1 < s.length := by
            rcases Nat.lt_or_ge (k - 1) s.length with h1 | h1
            · exact h1
            · rw [List.getElem?_eq_none h1] at hk; cases hk
          have hk1 : k ≠ 0 := by intro e; subst e; simp at hk0
          exact ⟨[(pc + 2, s.length + 1)],
            by simp [succs, CloC.insOf, Ins.kind, Ins.size, Op.operands]; omega, by simp⟩
  | _ =>
    rcases stk with _ | ⟨a, _ | ⟨b, s⟩⟩ <;>
      simp only [execIns] at h <;>
      (try split at h) <;>
      simp only [Except.ok.injEq, reduceCtorEq] at h <;>
      (try subst h) <;>
      simp [succs, CloC.insOf, Ins.kind, Ins.size, Op.operands]

/-! ### every run of C01's machine on `compClo p`: the heights of ALL activations are certified

`check_sound` is about the height abstraction of ONE frame (`Reach`).  C01's machine `Clo.mstep`
runs a whole program: activations, suspended callers, calls of closures long after their makers
returned.  `clo_machine_heights` carries the statement over: in every state the machine reaches
from `M.init` on `compClo p`, the running activation's (offset, operand count) is a `Reach` state of
ITS code object, and every suspended caller is — with the result it is waiting for — a `Reach` state
of its own code object.  So the certified heights are the machine's operand counts in every
activation, and no instruction the machine executes finds fewer operands than the checker's effect
table demands. -/

/-- the C04 code object the activation `fn` of the machine runs (`none` = the main code) -/
def CloC.codeOfFn (p : N) (fn : Option FnId) : Code := CloC.toC04 fn.isNone ((compClo p).codeOf fn)

/-- the states `Clo.mstep` reaches from the initial state -/
inductive MReach (P : Prog) : M → Prop where
  | init : MReach P M.init
  | step {m m' : M} : MReach P m → mstep P m = .ok m' → MReach P m'

/-- the running activation and every suspended caller are at `Reach` states of their code objects
    (a suspended caller: at its return address, with the result of the call pushed) -/
def CloInv (p : N) (m : M) : Prop :=
  Reach (CloC.codeOfFn p m.fn) ⟨m.cfg.pc, m.cfg.stk.length⟩ ∧
  ∀ fr, fr ∈ m.frames → Reach (CloC.codeOfFn p fr.fn) ⟨fr.pc, fr.stk.length + 1⟩

theorem codeOfFn_mem (p : N) (fn : Option FnId) :
    CloC.codeOfFn p fn ∈ CloC.codes p ∨ (compClo p).codeOf fn = [] := by
  cases fn with
  | none => exact .inl (List.mem_cons_self ..)
  | some g =>
    simp only [CloC.codeOfFn, Prog.codeOf, Option.isNone_some]
    cases hf : (compClo p).find g with
    | none => exact .inr rfl
    | some fc =>
      left
      rw [clo_codes_eq]
      refine List.mem_cons_of_mem _ (List.mem_map.mpr ⟨fc, ?_, rfl⟩)
      unfold Prog.find at hf
      exact List.mem_of_find?_eq_some hf

theorem codeOfFn_at (p : N) (fn : Option FnId) (pc : Nat) (i : Clo.FIns)
    (h : ((compClo p).codeOf fn)[pc]? = some (some i)) : (CloC.codeOfFn p fn).at pc = some (CloC.insOf i) := by
  simp [CloC.codeOfFn, CloC.toC04, Code.at, h]

/-- the instruction the machine is about to execute has its operands (the checker's `succs` is
    defined at the machine's operand count) -/
theorem clo_inv_succs (p : N) (hin : inClo p = true) (hfit : fitsClo p = true) (fn : Option FnId) (pc h : Nat)
    (i : Clo.FIns) (hr : Reach (CloC.codeOfFn p fn) ⟨pc, h⟩) (hi : ((compClo p).codeOf fn)[pc]? = some (some i)) :
    ∃ l, succs (CloC.insOf i) pc h = some l := by
  rcases codeOfFn_mem p fn with hm | hm
  · have hat := codeOfFn_at p fn pc i hi
    have hlt : pc < (CloC.codeOfFn p fn).size := by
      rcases Nat.lt_or_ge pc (CloC.codeOfFn p fn).size with h1 | h1
      · exact h1
      · simp [Code.at, Array.getElem?_eq_none h1] at hat
    obtain ⟨j, l, hj, hl⟩ := ((clo_no_underflow p hin hfit _ hm ⟨pc, h⟩ hr).2 hlt)
    simp only at hj hl
    rw [hat] at hj
    cases hj
    exact ⟨l, hl⟩
  · rw [hm] at hi; simp at hi

/-- one step of the machine keeps every activation at a `Reach` state of its code object -/
theorem clo_inv_step (p : N) (hin : inClo p = true) (hfit : fitsClo p = true) (m m' : M)
    (hinv : CloInv p m) (hs : mstep (compClo p) m = .ok m') : CloInv p m' := by
  obtain ⟨hcur, hfr⟩ := hinv
  unfold mstep at hs
  split at hs
  · -- `Call n`: the caller is suspended after its `Call` with callee and arguments gone; the
    -- callee starts at offset 0 with an empty stack
    rename_i n hc
    obtain ⟨l, hl⟩ := clo_inv_succs p hin hfit m.fn _ _ _ hcur hc
    have hat := codeOfFn_at p m.fn _ _ hc
    unfold doCall at hs
    cases hd : m.cfg.stk.drop n with
    | nil => simp [hd] at hs
    | cons fv rest =>
      have hlen : m.cfg.stk.length = n + 1 + rest.length := by
        have := congrArg List.length hd
        simp only [List.length_drop, List.length_cons] at this
        omega
      simp only [hd] at hs
      split at hs
      · split at hs
        · cases hs
        · split at hs
          · cases hs
          · simp only [Except.ok.injEq] at hs
            subst hs
            refine ⟨.init, ?_⟩
            intro fr hfrm
            simp only [List.mem_cons] at hfrm
            rcases hfrm with rfl | hfrm
            · refine .step hcur (.mk (l := [(m.cfg.pc + 2, rest.length + 1)]) hat ?_ (by simp))
              simp only [succs, CloC.insOf, Ins.kind, Ins.size, Op.operands]
              rw [if_pos (by omega)]
              congr 3
              omega
            · exact hfr fr hfrm
      · cases hs
  · -- `ReturnValue`: the caller resumes with the result pushed
    unfold doRet at hs
    split at hs
    · rename_i v rest fr fs hstk hfrs
      simp only [Except.ok.injEq] at hs
      subst hs
      refine ⟨?_, ?_⟩
      · have := hfr fr (by rw [hfrs]; exact List.mem_cons_self ..)
        simpa using this
      · intro fr' hm'
        exact hfr fr' (by rw [hfrs]; exact List.mem_cons_of_mem _ hm')
    · cases hs
    · cases hs
  · -- any other instruction: one step inside the running activation
    rename_i hnc hnr
    cases hst : step ((compClo p).codeOf m.fn) m.cfg with
    | error e =>
      rw [hst] at hs
      cases e with
      | done v => simp only at hs; split at hs <;> cases hs
      | err c => cases hs
      | nonlocal => cases hs
    | ok c =>
      rw [hst] at hs
      simp only [Except.ok.injEq] at hs
      subst hs
      unfold step at hst
      split at hst
      · cases hst
      · split at hst
        · rename_i i hi
          obtain ⟨l0, hl0⟩ := clo_inv_succs p hin hfit m.fn _ _ _ hcur hi
          have hat := codeOfFn_at p m.fn _ _ hi
          obtain ⟨l, hl, hmem⟩ := execIns_step i m.cfg c hst (by
            intro d hd
            subst hd
            simp only [succs, CloC.insOf, Ins.kind] at hl0
            split at hl0
            · assumption
            · cases hl0)
          exact ⟨.step hcur (.mk hat hl hmem), hfr⟩
        · cases hst

/-- **The certified heights are the machine's, in every activation**: in every state C01's machine
    reaches on `compClo p` — after any number of steps, calls, returns, closures made and called —
    the running activation is at a `Reach` state of its code object and so is every suspended
    caller -/
theorem clo_machine_heights (p : N) (hin : inClo p = true) (hfit : fitsClo p = true) (m : M)
    (hr : MReach (compClo p) m) : CloInv p m := by
  induction hr with
  | init => exact ⟨.init, by intro fr h; cases h⟩
  | step _ hs ih => exact clo_inv_step p hin hfit _ _ ih hs

/-- **No run of the machine underflows**: in every state the machine reaches on `compClo p`, the
    operand count of the running activation is the height EVERY accepted certificate of its code
    object names for the current offset — `certClo p`'s —, it is within the frame's limit, and the
    instruction about to run finds the operands the effect table demands (`succs` is defined) -/
theorem clo_machine_no_underflow (p : N) (hin : inClo p = true) (hfit : fitsClo p = true) (m : M)
    (hr : MReach (compClo p) m) :
    (∀ cert, check (CloC.codeOfFn p m.fn) cert = true → cert[m.cfg.pc]? = some (some m.cfg.stk.length)) ∧
    (CloC.codeOfFn p m.fn ∈ CloC.codes p → m.cfg.stk.length ≤ maxHeight) ∧
    (∀ i, ((compClo p).codeOf m.fn)[m.cfg.pc]? = some (some i) →
      ∃ l, succs (CloC.insOf i) m.cfg.pc m.cfg.stk.length = some l) := by
  have hinv := (clo_machine_heights p hin hfit m hr).1
  refine ⟨fun cert hc => (check_sound _ cert hc _ hinv).2.1, ?_, ?_⟩
  · intro hm
    exact (clo_no_underflow p hin hfit _ hm _ hinv).1
  · intro i hi
    exact clo_inv_succs p hin hfit m.fn _ _ i hinv hi

/-! ### the operands `toC04` drops are irrelevant to the checker -/

theorem eraseInsC_kind (i : Ins) : (eraseInsC i).kind = i.kind ∧ (eraseInsC i).size = i.size := by
  obtain ⟨op, a, b⟩ := i
  cases op <;> exact ⟨rfl, rfl⟩

/-- erasing the pool / table / slot / free indices of `LOAD_CONST`, `LOAD_GLOBAL`, `STORE_GLOBAL`,
    `LOAD_FAST`, `STORE_FAST`, `LOAD_FREE`, `STORE_FREE` and the first operand of `MAKE_CELL` (local
    index) and of `LOAD_CLOSURE` (pool index; its cell count is kept) from a code object does not
    change what `check` accepts -/
theorem check_eraseIdxC (c : Code) (cert : Cert) : check (eraseIdxC c) cert = check c cert :=
  check_mapIns eraseInsC eraseInsC_kind c cert

/-- `CloC.toC04` produces erased code -/
theorem eraseIdxC_toC04 (m : Bool) (code : Clo.Code) : eraseIdxC (CloC.toC04 m code) = CloC.toC04 m code := by
  simp only [eraseIdxC, CloC.toC04, List.map_toArray, List.map_map]
  congr 2
  apply List.map_congr_left
  intro s _
  cases s with
  | none => rfl
  | some i => cases i <;> rfl

/-! ### the guard `fitsClo` cannot be dropped -/

/-- **The nesting guard is necessary**: without `fitsClo`, `compile_balanced` is false on the
    closure fragment too — the program `1 + (1 + (… + 1))` with 1024 additions is in the fragment
    (`inClo`), and NO certificate is accepted for its main code object, because an execution
    reaches height 1025 > `maxHeight` (all operands pending at once; no loop, call or closure is
    involved). -/
theorem clo_compile_balanced_needs_fits :
    ¬ ∀ p, inClo p = true → ∀ c, c ∈ CloC.codes p → ∃ cert, check c cert = true := by
  intro h
  obtain ⟨cert, hc⟩ := h (deepProg 1024) (CloC.deepProg_inClo _) (CloC.mainCode (deepProg 1024))
    (List.mem_cons_self ..)
  have hcode : (compClo (deepProg 1024)).main = comp Sc.main 0 0 (deep 1024) := by
    simp [compClo, deepProg, comp, pre, Frag.postName, Frag.isNilL, leaves, CloC.deep_not_named]
  have hw : Win (compClo (deepProg 1024)).main 0 (comp Sc.main 0 0 (deep 1024)) := by
    rw [hcode]; exact Win.self _
  have r := CloC.deep_reach (ls := Sc.main) true _ 1024 0 0 hw .init
  have := (check_sound _ _ hc _ r).2.2
  simp only [maxHeight] at this
  omega

/-- the full statement (no nesting guard) is false -/
theorem clo_compile_balanced_full_false : ¬ clo_compile_balanced_full := by
  intro h
  apply clo_compile_balanced_needs_fits
  intro p hin c hc
  have hlen := certClo_length p
  obtain ⟨k, hk, rfl⟩ := List.mem_iff_getElem.mp hc
  have hk2 : k < (certClo p).length := by omega
  refine ⟨(certClo p)[k], h p hin ((CloC.codes p)[k], (certClo p)[k]) ?_⟩
  rw [List.mem_iff_getElem]
  exact ⟨k, by simp [List.length_zip]; omega, by simp⟩

/-! ### non-vacuity: concrete programs of the closure fragment (C01's examples): the counter
    factory, the adder factory (a captured parameter), two closures sharing a variable, a maker that
    writes after the capture, a closure passed to another function; the hypotheses hold and the
    statements evaluate -/

example : inClo exCounter = true ∧ fitsClo exCounter = true := by decide
example : inClo exAdder = true ∧ fitsClo exAdder = true := by decide
example : inClo exShared = true ∧ fitsClo exShared = true := by decide
example : inClo exWriteAfter = true ∧ fitsClo exWriteAfter = true ∧ CloC.depthProg exWriteAfter ≤ 20 := by decide
example : inClo exPassed = true ∧ fitsClo exPassed = true := by decide

/-- evaluate the theorem's conclusion: every code object with its certificate in `certClo p` -/
def cloAllAccepted (p : N) : Bool := ((CloC.codes p).zip (certClo p)).all fun x => check x.1 x.2

/-- the certificates, readable: heights per slot, `none` on operand slots, the end-of-code entry last -/
def cloCerts (p : N) : List (List (Option Nat)) := (certClo p).map Array.toList

-- the counter factory: main + `counter` + the closure `func() { n++; return n }` (3 code objects)
set_option maxRecDepth 8000 in
example : (CloC.codes exCounter).length = 3 ∧ cloAllAccepted exCounter = true := by decide

set_option maxRecDepth 8000 in
/-- the counter factory with its concrete certificates.
    main: `func counter…` as a statement (`LoadConst; Copy 0; StoreGlobal; PopTop`: 0,1,2,1),
    `c := counter()`, `c()` popped, `c()` kept: ends with ONE value.
    `counter`: `n := 0`, then `return func() {…}`: the literal refers to `n` THREE times (`n++` is
    `n; n++` to the parser, and `return n`), so `MakeCell n 0` three times at heights 0, 1, 2 (three
    slots each), `LoadClosure fn 3` at height 3 (it pops the three cells, pushes the closure),
    `ReturnValue` at 1.
    the closure: `n++` = `LoadFree n; PopTop; LoadFree n; LoadConst 1; BinaryOp +; StoreFree n`
    (0,1,0,1,2,1), `return n` = `LoadFree n; ReturnValue` (0,1); end-of-code unreachable. -/
example : cloCerts exCounter =
    [[some 0, none, some 1, none, some 2, none, some 1, some 0, none, some 1, none, some 1, none, some 0, none, some 1, none,
        some 1, some 0, none, some 1, none, some 1],
     [some 0, none, some 1, none, some 0, none, none, some 1, none, none, some 2, none, none, some 3, none, none, some 1, none],
     [some 0, none, some 1, some 0, none, some 1, none, some 2, none, some 1, none, some 0, none, some 1, none]] := by
  decide

-- the adder factory: a captured PARAMETER
set_option maxRecDepth 8000 in
example : (CloC.codes exAdder).length = 3 ∧ cloAllAccepted exAdder = true := by decide

set_option maxRecDepth 8000 in
/-- the adder factory: `adder` is `MakeCell n 0` (0), `LoadClosure fn 1` (1), `ReturnValue` (1);
    the closure `func(x) { return x + n }` is `LoadFast x` (0), `LoadFree n` (1), `BinaryOp +` (2),
    `ReturnValue` (1) -/
example : (cloCerts exAdder).drop 1 =
    [[some 0, none, none, some 1, none, none, some 1, none],
     [some 0, none, some 1, none, some 2, none, some 1, none]] := by
  decide

-- a closure passed to another function (`twice(c, 1)`) and called there, keeping its state
set_option maxRecDepth 8000 in
example : (CloC.codes exPassed).length = 4 ∧ cloAllAccepted exPassed = true := by decide

set_option maxRecDepth 8000 in
/-- `twice(fn, x) { fn(fn(x)) }` calls the closure it received twice: `LoadFast fn` (0),
    `LoadFast fn` (1), `LoadFast x` (2), `Call 1` (3), `Call 1` (2), `ReturnValue` (1) — the body of
    the closure runs in its own frame from height 0 (third certificate), whatever `twice` holds -/
example : ((cloCerts exPassed).drop 1).take 1 =
    [[some 0, none, some 1, none, some 2, none, some 3, none, some 2, none, some 1, none]] ∧
    ((cloCerts exPassed).drop 3).map (·.head?) = [some (some 0)] := by
  decide

-- two closures sharing one variable; a maker that writes after the capture
set_option maxRecDepth 8000 in
example : cloAllAccepted exShared = true ∧ cloAllAccepted exWriteAfter = true := by decide

example : ∀ x, x ∈ (CloC.codes exCounter).zip (certClo exCounter) → check x.1 x.2 = true :=
  (clo_compile_balanced exCounter (by decide) (by decide)).2

/-- the entry state of a closure's body is reachable, so the execution theorems are not vacuous -/
example : ∀ d, d ∈ funsOf exCounter → (CloC.fnCert d)[0]? = some (some 0) :=
  fun d hd => (clo_fn_heights exCounter (by decide) (by decide) d hd ⟨0, 0⟩ .init).2.1

/-- a literal with TWO captures holds two cells when `LoadClosure fn 2` runs:
    `func f(a, b) { return func() { return a + b } }`: `MakeCell a` (0), `MakeCell b` (1),
    `LoadClosure fn 2` (2), `ReturnValue` (1) -/
def exTwoCaptures : N :=
  .prog (.cons (.expr (.func "f" (.cons (.param "a" .none_) (.cons (.param "b" .none_) .nilL))
      (.block (.cons (.return_ (.func "" .nilL (.block (.cons (.return_ (.infix .add (.id "a") (.id "b"))) .nilL)))) .nilL))))
    (.cons (.expr (.call (.call (.id "f") (.cons (.int 1) (.cons (.int 2) .nilL))) .nilL)) .nilL))

set_option maxRecDepth 8000 in
example : inClo exTwoCaptures = true ∧ cloAllAccepted exTwoCaptures = true ∧
    ((cloCerts exTwoCaptures).drop 1).take 1 =
      [[some 0, none, none, some 1, none, none, some 2, none, none, some 1, none]] := by decide

/-- `k` steps of the machine (`none`: it stopped earlier) -/
def mstepN (P : Prog) : Nat → M → Option M
  | 0, m => some m
  | k + 1, m =>
    match mstep P m with
    | .ok m' => mstepN P k m'
    | .error _ => none

theorem mreach_stepN (P : Prog) : ∀ (k : Nat) (m m' : M), MReach P m → mstepN P k m = some m' → MReach P m'
  | 0, m, m', h, hs => by simp only [mstepN, Option.some.injEq] at hs; exact hs ▸ h
  | k + 1, m, m', h, hs => by
    simp only [mstepN] at hs
    cases hm : mstep P m with
    | ok m1 => rw [hm] at hs; exact mreach_stepN P k m1 m' (.step h hm) hs
    | error e => rw [hm] at hs; cases hs

set_option maxRecDepth 8000 in
/-- the machine theorem is not vacuous: on the counter factory, after 11 steps the machine is in
    the activation of `counter` (one suspended caller) at its `LoadClosure fn 3` (offset 13) with the
    three cells on the stack; after 20 steps in the activation of the CLOSURE `c()` at its `BinaryOp`
    (offset 7) with two operands — the heights the certificates name (`cloCerts exCounter`: entries 13
    of the second and 7 of the third certificate) -/
example : ((mstepN (compClo exCounter) 11 M.init).map fun m => (m.fn.isSome, m.frames.length, m.cfg.pc, m.cfg.stk.length))
      = some (true, 1, 13, 3) ∧
    ((mstepN (compClo exCounter) 20 M.init).map fun m => (m.fn.isSome, m.frames.length, m.cfg.pc, m.cfg.stk.length))
      = some (true, 1, 7, 2) ∧
    (((cloCerts exCounter).drop 1).take 1).map (·[13]?) = [some (some 3)] ∧
    ((cloCerts exCounter).drop 2).map (·[7]?) = [some (some 2)] := by decide

example (m : M) (h : mstepN (compClo exCounter) 20 M.init = some m) : CloInv exCounter m :=
  clo_machine_heights exCounter (by decide) (by decide) m (mreach_stepN _ 20 _ _ .init h)

/-- outside the fragment the syntax-tree certificate is refused as it should be: a `break` under
    a pending operand inside a closure's body (`func f() { return func() { for { x := 1 + if true { break } } } }`,
    C04's known finding `C04-ctl-under-operands`) -/
def exCloBreakUnder : N :=
  .prog (.cons (.expr (.func "f" .nilL (.block (.cons (.return_ (.func "" .nilL (.block (.cons (.forever (.block (.cons
    (.var "x" (.infix .add (.int 1) (.if_ (.bool true) (.block (.cons .break_ .nilL)) .none_))) .nilL))) .nilL)))) .nilL)))) .nilL)

set_option maxRecDepth 8000 in
example : inClo exCloBreakUnder = false ∧ cloAllAccepted exCloBreakUnder = false := by decide

end Risor.C04
