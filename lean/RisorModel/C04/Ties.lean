import RisorModel.C04.Model
import RisorModel.Generated.C04
import RisorModel.C04.Host
import RisorModel.Generated.C04Host
/-!
C04 ties: facts regenerated from op/op.go and vm/vm.go on this run against the reviewed
tables the model was written from.  `specOpTable`/`specVmShapes` were frozen from the tree
at the pinned commit and read side by side with `Ins.kind`; a source edit that changes an
opcode's operand count or the pop/push/fetch structure of an arm of `eval` breaks exactly
one of the lemmas below.
-/
namespace Risor.C04

def specOpTable : List (String × Nat) := [
  ("BINARY_OP", 1),
  ("BINARY_SUBSCR", 0),
  ("BUILD_LIST", 1),
  ("BUILD_MAP", 1),
  ("BUILD_SET", 1),
  ("BUILD_STRING", 1),
  ("CALL", 1),
  ("COMPARE_OP", 1),
  ("CONTAINS_OP", 1),
  ("COPY", 1),
  ("DEFER", 0),
  ("FALSE", 0),
  ("FOR_ITER", 2),
  ("FROM_IMPORT", 2),
  ("GET_ITER", 0),
  ("GO", 0),
  ("HALT", 0),
  ("IMPORT", 0),
  ("JUMP_BACKWARD", 1),
  ("JUMP_FORWARD", 1),
  ("LENGTH", 0),
  ("LOAD_ATTR", 1),
  ("LOAD_CLOSURE", 2),
  ("LOAD_CONST", 1),
  ("LOAD_FAST", 1),
  ("LOAD_FREE", 1),
  ("LOAD_GLOBAL", 1),
  ("MAKE_CELL", 2),
  ("NIL", 0),
  ("NOP", 0),
  ("PARTIAL", 1),
  ("POP_JUMP_FORWARD_IF_FALSE", 1),
  ("POP_JUMP_FORWARD_IF_TRUE", 1),
  ("POP_TOP", 0),
  ("RANGE", 0),
  ("RECEIVE", 0),
  ("RETURN_VALUE", 0),
  ("SEND", 0),
  ("SLICE", 0),
  ("STORE_ATTR", 1),
  ("STORE_FAST", 1),
  ("STORE_FREE", 1),
  ("STORE_GLOBAL", 1),
  ("STORE_SUBSCR", 0),
  ("SWAP", 1),
  ("TRUE", 0),
  ("UNARY_NEGATIVE", 0),
  ("UNARY_NOT", 0),
  ("UNPACK", 1)
]

def specVmShapes : List (String × String) := [
  ("BINARY_OP", "fetch pop pop push"),
  ("BINARY_SUBSCR", "pop pop push"),
  ("BUILD_LIST", "fetch loop[i := uint16(0); i < count]{pop} push"),
  ("BUILD_MAP", "fetch loop[i := uint16(0); i < count]{pop pop} push"),
  ("BUILD_SET", "fetch loop[i := uint16(0); i < count]{pop} push"),
  ("BUILD_STRING", "fetch loop[i := uint16(0); i < count]{pop} push"),
  ("CALL", "fetch loop[argIndex := argc - 1; argIndex >= 0]{pop} pop callObject"),
  ("COMPARE_OP", "fetch pop pop push"),
  ("CONTAINS_OP", "pop pop fetch push"),
  ("COPY", "fetch push"),
  ("DEFER", "pop"),
  ("FALSE", "push"),
  ("FOR_ITER", "fetch fetch pop alt{ | push alt{push | alt{push push | alt{push | }}}}"),
  ("FROM_IMPORT", "fetch fetch loop[i := uint16(0); i < importsCount]{pop} loop[i := int(parentLen - 1); i >= 0]{pop} loop[range names]{importModule alt{push | importModule push}}"),
  ("GET_ITER", "pop push"),
  ("GO", "pop"),
  ("HALT", "ret"),
  ("IMPORT", "pop importModule push"),
  ("JUMP_BACKWARD", "fetch"),
  ("JUMP_FORWARD", "fetch"),
  ("LENGTH", "pop push"),
  ("LOAD_ATTR", "pop fetch push"),
  ("LOAD_CLOSURE", "fetch fetch loop[i := uint16(0); i < freeCount]{pop} push"),
  ("LOAD_CONST", "fetch push"),
  ("LOAD_FAST", "fetch push"),
  ("LOAD_FREE", "fetch push"),
  ("LOAD_GLOBAL", "fetch push"),
  ("MAKE_CELL", "fetch fetch push"),
  ("NIL", "push"),
  ("NOP", ""),
  ("PARTIAL", "fetch loop[i := argc - 1; i >= 0]{pop} pop push"),
  ("POP_JUMP_FORWARD_IF_FALSE", "pop fetch"),
  ("POP_JUMP_FORWARD_IF_TRUE", "pop fetch"),
  ("POP_TOP", "pop"),
  ("RANGE", "pop push"),
  ("RECEIVE", "pop push"),
  ("RETURN_VALUE", "resumeFrame alt{ret | }"),
  ("SEND", "pop pop"),
  ("SLICE", "pop pop pop push"),
  ("STORE_ATTR", "fetch pop pop"),
  ("STORE_FAST", "fetch pop"),
  ("STORE_FREE", "fetch pop"),
  ("STORE_GLOBAL", "fetch pop"),
  ("STORE_SUBSCR", "pop pop pop"),
  ("SWAP", "fetch swap"),
  ("TRUE", "push"),
  ("UNARY_NEGATIVE", "pop push"),
  ("UNARY_NOT", "pop push"),
  ("UNPACK", "pop fetch loop[]{alt{break | } push}")
]

/-- the opcode table of op/op.go is the reviewed one -/
theorem opTable_matches : Risor.Generated.C04.opTable = specOpTable := rfl

/-- every registered opcode is known to the model with the same operand count -/
theorem opTable_modelled :
    specOpTable.all (fun (n, c) => (Op.ofName n).map Op.operands == some c) = true := by decide

/-- the stack traffic of every arm of `vm.eval` is the reviewed one -/
theorem vmShapes_match : Risor.Generated.C04.vmShapes = specVmShapes := rfl

/-- every opcode registered in op/op.go is handled by `eval` -/
theorem every_op_has_an_arm : specVmShapes.map (·.1) = specOpTable.map (·.1) := by decide

/-- opcodes whose effect is not a fixed (pops, pushes), or whose control effect is not
    fall-through: reviewed by hand against `Ins.kind` (their shapes are pinned by
    `vmShapes_match`) -/
def special : List String :=
  ["COPY", "SWAP", "HALT", "JUMP_BACKWARD", "JUMP_FORWARD", "POP_JUMP_FORWARD_IF_FALSE", "POP_JUMP_FORWARD_IF_TRUE"]

/-- for every straight-line arm of `eval` the model's `kind` is exactly `fall pops pushes`
    with the numbers counted from the source on this run, and for every arm the operand
    count equals the number of `vm.fetch()` calls -/
theorem straight_line_effects_agree :
    Risor.Generated.C04.vmEffects.all (fun (n, eff, f) =>
      match Op.ofName n with
      | none => false
      | some o =>
        o.operands == f &&
        (special.contains n ||
          match eff with
          | some (p, q) => decide (Ins.kind ⟨o, 0, 0⟩ = .fall p q)
          | none => true)) = true := by decide

/-- which arms are not straight-line is itself pinned -/
theorem irregular_arms :
    (Risor.Generated.C04.vmEffects.filter (fun (_, eff, _) => eff.isNone)).map (·.1) =
      ["BUILD_LIST", "BUILD_MAP", "BUILD_SET", "BUILD_STRING", "CALL", "FOR_ITER", "FROM_IMPORT", "HALT",
       "IMPORT", "LOAD_CLOSURE", "PARTIAL", "RETURN_VALUE", "SWAP", "UNPACK"] := by decide

/-! ### host entry points (Host.lean): the facts of vm/vm.go the entry-point machine assumes,
regenerated by extract/c04host.go on this run -/

/-- vm.sp is written in exactly four places: resetForNewCode (`= -1`), pop, push and resumeFrame;
    in particular neither start, stop nor activateCode restores it -/
theorem host_spWrites_match : Risor.Generated.C04Host.spWrites = Host.reviewedSpWrites := rfl

/-- runCodeInternal calls resetForNewCode under the single guard `resetState && vm.startCount > 1`,
    with the bare call as the guard's body: on every start after the first, unconditionally -/
theorem host_resetGuards_match :
    Risor.Generated.C04Host.resetGuards = Host.reviewedResetGuards ∧ Risor.Generated.C04Host.resetUnguarded = 0 :=
  ⟨rfl, rfl⟩

/-- the Run path drops what the previous run left before it activates the main code -/
theorem host_runDrops_match : Risor.Generated.C04Host.runLoops.contains Host.reviewedDropLoop = true := by decide

/-- Run enters runCodeInternal without, RunCode with resetState; Call enters callFunction between
    start and stop; runCodeInternal activates frame 0 and evaluates -/
theorem host_entryCalls_match : Risor.Generated.C04Host.entryCalls = Host.reviewedEntryCalls := rfl

/-- callFunction saves sp once, restores it in its deferred function (resumeFrame, then the pop
    loop down to baseSP on EVERY exit — since the repair of C04-call-panic-leaks-slot no longer
    under `if resultErr != nil`) and pops the result it returns; resumeFrame as reviewed -/
theorem host_call_match :
    Risor.Generated.C04Host.callSaves = Host.reviewedCallSaves ∧
    Risor.Generated.C04Host.callRestore = Host.reviewedCallRestore ∧
    Risor.Generated.C04Host.callReturns = Host.reviewedCallReturns ∧
    Risor.Generated.C04Host.resumeFrameBody = Host.reviewedResumeFrame := ⟨rfl, rfl, rfl, rfl⟩

/-- the constants of the entry-point machine ARE what the regenerated facts say: reset
    unconditional, sp reset to -1, Run drops, Call cleans up on every exit -/
theorem implCfg_tie :
    Host.cfgOfFacts Risor.Generated.C04Host.resetGuards Risor.Generated.C04Host.resetUnguarded
      Risor.Generated.C04Host.resetSp Risor.Generated.C04Host.runLoops
      Risor.Generated.C04Host.callRestore = Host.implCfg := by decide

/-- HISTORICAL: read with the deferred function as it was before the repair, the same facts give the
    pre-fix machine (the one `C04_fixed_call_panic_leaked_slot` is about) -/
theorem preFixCallCfg_tie :
    Host.cfgOfFacts Risor.Generated.C04Host.resetGuards Risor.Generated.C04Host.resetUnguarded
      Risor.Generated.C04Host.resetSp Risor.Generated.C04Host.runLoops Host.preFixCallRestore = Host.preFixCallCfg := by decide


end Risor.C04
