import RisorModel.C04.Lit
import RisorModel.C04.ObsProps
/-!
C04 — round 6 theorems.

Part 1: a list literal pushes exactly one value for EVERY number of items (257, 300, 65535 …)
whose code pushes one value each, under any number of pending operands; the operand of
BUILD_LIST is forced; a statement holding one is neutral for any number of executions.  The
forbidden chunked shape leaves one value per further chunk and execution.

Part 2: `l in r` / `l not in r` push exactly one value for every pair of operands that push one
value each — computed subjects and literal lists of constants included; the forbidden chain
that keeps the subject on the stack leaves TWO values on the path of an early hit.
-/
namespace Risor.C04.Lit
open Risor.C04
open Risor.C04.MV (runStraight)
open Risor.C04.Obs (PushesOne runStraight_append runStraight_fall repeatRun repeatRun_const stmt_height)

/-! ### Part 1 -/

/-- the item loop of compileList pushes exactly one value per item, for every item list -/
theorem flat_height (items : List (List Ins)) (hok : ∀ c ∈ items, PushesOne c) :
    ∀ h, runStraight (flat items) h = some (h + items.length) := by
  induction items with
  | nil => intro h; simp [flat, runStraight]
  | cons c r ih =>
    intro h
    have h1 := hok c (by simp) h
    have h2 := ih (fun g hg => hok g (by simp [hg])) (h + 1)
    simp only [flat, runStraight_append, h1, Option.bind_some, h2, List.length_cons]
    congr 1; omega

/-- the item loop followed by `BUILD_LIST n`, for ANY operand `n` -/
theorem flat_buildList (items : List (List Ins)) (hok : ∀ c ∈ items, PushesOne c) (n h : Nat) :
    runStraight (flat items ++ [buildList n]) h =
      if n ≤ h + items.length then some (h + items.length - n + 1) else none := by
  simp only [runStraight_append, flat_height items hok h, Option.bind_some]
  simp [runStraight, buildList, Ins.kind]

/-- **A list literal pushes exactly one value**, for every number of items (no bound: 257, 300,
    65535 items alike) and under any number `h` of pending operands. -/
theorem compileList_pushes_one (items : List (List Ins)) (hok : ∀ c ∈ items, PushesOne c) :
    PushesOne (compileList items) := by
  intro h
  rw [compileList, flat_buildList items hok]
  simp

/-- **The operand of BUILD_LIST is forced**: the literal pushes exactly one value if and only
    if ONE BUILD_LIST collects all the items. -/
theorem buildList_operand_exact (items : List (List Ins)) (hok : ∀ c ∈ items, PushesOne c)
    (n h : Nat) (hn : n ≤ items.length) :
    runStraight (flat items ++ [buildList n]) h = some (h + 1) ↔ n = items.length := by
  rw [flat_buildList items hok]
  have : n ≤ h + items.length := by omega
  simp only [this, if_true, Option.some.injEq]
  omega

/-- **A statement holding a list literal is neutral for every number of executions.** -/
theorem list_stmt_neutral (items : List (List Ins)) (hok : ∀ c ∈ items, PushesOne c) (k h : Nat) :
    repeatRun (stmt (compileList items)) k h = some h := by
  have := repeatRun_const (stmt (compileList items)) 0
    (stmt_height _ 0 (fun h => by simpa using compileList_pushes_one items hok h)) k h
  simpa using this

/-- one further chunk of the forbidden shape: the list is on top before, and after it there is
    the stale copy with the result of `extend` on top of it -/
theorem extendChunk_leaks (items : List (List Ins)) (hok : ∀ c ∈ items, PushesOne c) (h : Nat) :
    runStraight (extendChunk items) (h + 1) = some (h + 2) := by
  have hf := flat_height items hok (h + 2)
  simp only [extendChunk, runStraight_append]
  have h0 : runStraight [(⟨.copy, 0, 0⟩ : Ins), ⟨.loadAttr, 0, 0⟩] (h + 1) = some (h + 2) := by
    simp [runStraight, Ins.kind]
  rw [h0, Option.bind_some, runStraight_append, hf, Option.bind_some]
  simp [runStraight, buildList, Ins.kind]

theorem chunksCode_leaks (rest : List (List (List Ins)))
    (hok : ∀ ch ∈ rest, ∀ c ∈ ch, PushesOne c) :
    ∀ h, runStraight (chunksCode rest) (h + 1) = some (h + 1 + rest.length) := by
  induction rest with
  | nil => intro h; simp [chunksCode, runStraight]
  | cons ch r ih =>
    intro h
    have h1 := extendChunk_leaks ch (hok ch (by simp)) h
    have h2 := ih (fun g hg => hok g (by simp [hg])) (h + 1)
    simp only [chunksCode, runStraight_append, h1, Option.bind_some, List.length_cons]
    rw [h2]; congr 1; omega

/-- **The forbidden chunked shape leaks**: the literal takes the height from `h` to
    `h + 1 + (number of further chunks)` — the list on top and one stale reference per chunk. -/
theorem compileListChunked_leaks (first : List (List Ins)) (rest : List (List (List Ins)))
    (hf : ∀ c ∈ first, PushesOne c) (hr : ∀ ch ∈ rest, ∀ c ∈ ch, PushesOne c) (h : Nat) :
    runStraight (compileListChunked first rest) h = some (h + 1 + rest.length) := by
  simp only [compileListChunked, runStraight_append, compileList_pushes_one first hf h,
    Option.bind_some]
  exact chunksCode_leaks rest hr h

/-- `k` executions of a statement holding a chunked literal raise the height by
    `k * (number of further chunks)` -/
theorem chunked_stmt_grows (first : List (List Ins)) (rest : List (List (List Ins)))
    (hf : ∀ c ∈ first, PushesOne c) (hr : ∀ ch ∈ rest, ∀ c ∈ ch, PushesOne c) (k h : Nat) :
    repeatRun (stmt (compileListChunked first rest)) k h = some (h + k * rest.length) :=
  repeatRun_const _ _ (stmt_height _ _ (compileListChunked_leaks first rest hf hr)) k h

/-! ### Part 2 -/

theorem inTail_effect (h : Nat) : runStraight inTail (h + 2) = some (h + 1) := by
  simp [inTail, runStraight, Ins.kind]

/-- **A membership test pushes exactly one value** for every left and right operand that push
    one value each (computed subjects, literal lists of constants: `compileList_pushes_one`). -/
theorem compileIn_pushes_one (l r : List Ins) (hl : PushesOne l) (hr : PushesOne r) :
    PushesOne (compileIn l r) := by
  intro h
  simp only [compileIn, runStraight_append, hl h, hr (h + 1), Option.bind_some]
  exact inTail_effect h

theorem compileNotIn_pushes_one (l r : List Ins) (hl : PushesOne l) (hr : PushesOne r) :
    PushesOne (compileNotIn l r) := by
  intro h
  simp only [compileNotIn, runStraight_append, compileIn_pushes_one l r hl hr h, Option.bind_some]
  rw [runStraight_fall _ 1 1 _ rfl (by omega)]
  congr 1

/-- membership against a literal list of any length of one-value items -/
theorem in_literal_pushes_one (l : List Ins) (items : List (List Ins)) (hl : PushesOne l)
    (hok : ∀ c ∈ items, PushesOne c) : PushesOne (compileIn l (compileList items)) :=
  compileIn_pushes_one l _ hl (compileList_pushes_one items hok)

/-- **A statement holding a membership test is neutral for every number of executions**, whatever
    the outcome of each test. -/
theorem in_stmt_neutral (l r : List Ins) (hl : PushesOne l) (hr : PushesOne r) (k h : Nat) :
    repeatRun (stmt (compileIn l r)) k h = some h := by
  have := repeatRun_const (stmt (compileIn l r)) 0
    (stmt_height _ 0 (fun h => by simpa using compileIn_pushes_one l r hl hr h)) k h
  simpa using this

theorem notIn_stmt_neutral (l r : List Ins) (hl : PushesOne l) (hr : PushesOne r) (k h : Nat) :
    repeatRun (stmt (compileNotIn l r)) k h = some h := by
  have := repeatRun_const (stmt (compileNotIn l r)) 0
    (stmt_height _ 0 (fun h => by simpa using compileNotIn_pushes_one l r hl hr h)) k h
  simpa using this

theorem missRound_effect (h : Nat) : runStraight missRound (h + 1) = some (h + 1) := by
  simp [missRound, runStraight, Ins.kind]

theorem missRounds_effect (k h : Nat) : runStraight (missRounds k) (h + 1) = some (h + 1) := by
  induction k with
  | zero => simp [missRounds, runStraight]
  | succ k ih => simp only [missRounds, runStraight_append, missRound_effect, Option.bind_some, ih]

/-- **The forbidden chain leaks on an early hit**: with the subject kept on the stack, the path
    on which an item other than the last is the hit ends with TWO values (the subject and the
    boolean), after any number of earlier misses — while the path of the last item ends with
    one: the expression has no single stack effect. -/
theorem keptSubjectHitPath_leaks (subject : List Ins) (hs : PushesOne subject) (misses h : Nat) :
    runStraight (keptSubjectHitPath subject misses) h = some (h + 2) := by
  simp only [keptSubjectHitPath, runStraight_append, hs h, Option.bind_some, missRounds_effect,
    missRound_effect]
  simp [runStraight, Ins.kind]

/-- hypotheses are satisfiable and the leak is real: a literal of 20 constants, alone and in
    chunks of 8 + 8 + 4 (the theorems above hold for every length); `(g % c) in [c, c, c]` -/
example : runStraight (compileList (List.replicate 20 [⟨.loadConst, 0, 0⟩])) 2 = some 3 := by
  decide
example : runStraight (compileListChunked (List.replicate 8 [⟨.loadConst, 0, 0⟩])
    [List.replicate 8 [⟨.loadConst, 0, 0⟩], List.replicate 4 [⟨.loadConst, 0, 0⟩]]) 2 = some 5 := by
  decide
example : runStraight (compileIn (Obs.TE.bin .glob .lit).code
    (compileList (List.replicate 3 [⟨.loadConst, 0, 0⟩]))) 0 = some 1 := by decide

end Risor.C04.Lit
