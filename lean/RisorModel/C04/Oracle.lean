import RisorModel.Util
/-! Line-protocol front end of the C04 model (stub until the model exists). -/
namespace Risor.C04

def handle : List String → String
  | _ => "error\tnot-implemented"

end Risor.C04
