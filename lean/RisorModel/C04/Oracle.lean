import RisorModel.Util
import RisorModel.C04.Model
import RisorModel.C04.FragCertOracle
import RisorModel.C04.FunCertOracle
import RisorModel.C04.CloCertOracle
import RisorModel.C04.SeqCertOracle
import RisorModel.C04.MultiVarOracle
import RisorModel.C04.ObsOracle
import RisorModel.C04.LitOracle
import RisorModel.C04.Host
/-! Line-protocol front end of the C04 model.
  `stack <main|fn> <instruction text>` → `accept <max height> <n reachable>` | `reject <offset: reason>` | `error <decode problem>`
  `cert <main|fn> <instruction text>` → the accepted certificate itself (heights per slot)
  `fragcert <sexp> <globals> <instruction text>` → see FragCertOracle.lean (the certificate of the proved fragment on real bytecode)
  `funcert <sexp> <globals> <id=…;ins=… per code object, joined by |>` → see FunCertOracle.lean (the certificates of the proved
      FUNCTION fragment on the real bytecode of every code object)
  `multi …`, `multicode …` → see MultiVarOracle.lean (multi-variable statements `a, _, c := e`: the tail the model of
      compileMultiVar emits against the real one, what the real instructions leave behind, whole code objects)
  `tmpl …`, `trace …` → see ObsOracle.lean (template strings with empty interpolations: compileString's code against the real
      window; observed runs of one frame activation: the real heights against the model machine, the Spec `neutral`)
  `lit …` → see LitOracle.lean (list literals of every length and membership tests: compileList / compileIn / compileNotIn
      against the real window, what the real instructions leave behind)
  `host <impl|skipreset|keepresult> <history>` → see Host.lean (histories of host invocations Run / RunCode / Call on one VM:
      sp/fp after every invocation for the entry-point machine and for the Spec) -/
namespace Risor.C04

def handle : List String → String
  | ["stack", kind, text] =>
    match decode (kind == "main") text with
    | .error e => "error\t" ++ e
    | .ok c =>
      match infer c with
      | .error e => "reject\t" ++ e
      | .ok cert =>
        if check c cert then
          "accept\t" ++ toString (maxCert cert) ++ "\t" ++ toString (cert.toList.filter Option.isSome).length
        else "reject\tcertificate refused by the verified checker (end-of-code height or structure)"
  | ["cert", kind, text] =>
    -- the accepted certificate itself: the height at every slot position (`-` = not an
    -- instruction boundary or unreachable); the harness compares it with the REAL operand-stack
    -- height at every instruction the real VM dispatches (harness/c04trace.go)
    match decode (kind == "main") text with
    | .error e => "error\t" ++ e
    | .ok c =>
      match infer c with
      | .error e => "reject\t" ++ e
      | .ok cert =>
        if check c cert then
          "accept\t" ++ ",".intercalate (cert.toList.map fun x => match x with | some h => toString h | none => "-")
        else "reject\tcertificate refused by the verified checker"
  | "fragcert" :: rest => handleFragCert rest
  | "funcert" :: rest => handleFunCert rest
  | "clocert" :: rest => handleCloCert rest
  | "seqcert" :: rest => handleSeqCert rest
  | "funin" :: rest => handleFunIn rest
  | "multi" :: rest => MV.handleMulti rest
  | "multicode" :: rest => MV.handleMultiCode rest
  | "tmpl" :: rest => Obs.handleTmpl rest
  | "trace" :: rest => Obs.handleTrace rest
  | "lit" :: rest => Lit.handleLit rest
  | "host" :: rest => Host.handleHost rest
  | _ => "error\tunknown-request"

end Risor.C04
