import RisorModel.C04.SeqCertLemmas
import RisorModel.C04.FragCertProps
import RisorModel.C01.SeqProps
/-!
C04 on C01's CONTAINER fragment F6 — property theorems.

`compile_balanced` (DESIGN.md C04: statements are stack-neutral, expressions push exactly one
value, every loop head has one height however many iterations) for all programs of the container
fragment at once: list literals, index reads, item assignment plain and compound (`a[i] op= e`),
deep equality, and the four range-loop forms `for k, v := range c`, `for k := range c`,
`for range c`, `for v in c` over lists and ints — loops that keep their ITERATOR in an operand-stack
slot for as long as they run.  `Seq.compSeq p` compiles a program of the fragment (`inSeq`) into one
code object; the verified checker `check` accepts it with the certificate `certSeq p`, computed from
the syntax tree alone (`SeqC.hts`):

  * the body of a range loop runs ONE ABOVE the height the loop was entered with (the iterator);
    nested range loops stack their iterators: a body nested in `k` range loops runs `k` above;
  * `ForIter d m` has two edges with DIFFERENT heights: on exhaustion the iterator is popped and
    control arrives after the loop with the entry height; otherwise the iterator stays and
    0 / 1 / 2 loop values are pushed (1 for `for v in`), which the `StoreGlobal`s of the names pop;
  * `break` out of a range loop is `PopTop; JumpForward`: the iterator is dropped BEFORE the jump,
    so both ways out of the loop arrive with the same height; `continue` jumps to the backward
    jump with the iterator still in place;
  * `BuildList n` pops its `n` items and pushes one list, `BinarySubscr` pops 2 and pushes 1,
    `StoreSubscr` pops 3 and pushes nothing; the compound form evaluates container and index twice.

The effect the checker's table (`Ins.kind`) gives these instructions is the effect of C01's machine
(`Seq.execIns`): `buildList_effect`, `binarySubscr_effect`, `storeSubscr_effect`, `getIter_effect`,
`forIter_effect` (both edges, every number of loop variables), `forIter_exhausted_drops`,
`forIter_next_keeps`, `break_popTop_effect`; `seq_execIns_step` says the same of EVERY instruction of
the fragment, and `seq_machine_heights` carries it to whole runs of `Seq.step` on `compSeq p`.

Combined with `check_sound`: `seq_heights`, `seq_no_underflow`, `seq_loop_heights` (every loop
head — range loops included — has ONE height in every reachable state: the iterator neither
accumulates nor is lost), `seq_finished_run_leaves_result`.

The one hypothesis besides membership in the fragment is `fitsSeq p`: the operand NESTING stays
within the frame's height limit; `SeqC.depth p ≤ maxHeight`, a bound by recursion on the syntax,
suffices (`seq_compile_balanced_of_depth`), and the guard cannot be dropped
(`seq_compile_balanced_needs_fits`; the full statement without it is `seq_compile_balanced_full`).

The object of the theorems, `SeqC.toC04 (compSeq p)`, is compared with the real compiler's bytecode
on every run (C01's link A; `eraseIdx real = SeqC.toC04 (compSeq p)` in `SeqCertOracle.lean`),
`certSeq p` is re-checked on the REAL instructions, and its entries are compared with the real VM's
operand-stack height at every dispatched instruction (harness/c04seq.go).
-/
namespace Risor.C04
open Risor.C01 Risor.C01.Seq

/-! ### the certificate computed from the syntax tree is accepted -/

theorem seq_shape_parts (p : N) (hin : inSeq p = true) : wf p = true ∧ escapes p = false ∧ ∃ s, p = .prog s := by
  cases p with
  | prog s =>
    simp only [inSeq, Bool.and_eq_true] at hin
    have h := hin.1
    simp only [wf, Bool.and_eq_true, Bool.not_eq_true'] at h
    exact ⟨hin.1, by simpa [escapes] using h.1.2, s, rfl⟩
  | _ => simp [inSeq] at hin

/-- the code object of a program of the fragment, with the certificate `certSeq p` -/
theorem seq_cert_accepted (p : N) (hin : inSeq p = true) (hfit : fitsSeq p = true) :
    check (SeqC.mainCode p) (certSeq p) = true := by
  obtain ⟨hw, hesc, s, hp⟩ := seq_shape_parts p hin
  let G := SeqC.progCtx p hfit
  have hC : SeqC.mainCode p = G.C := rfl
  have hcert : certSeq p = G.cert := rfl
  have hcode : G.code = comp 0 0 false p := rfl
  have hH : G.H = SeqC.hts false 0 p := rfl
  obtain ⟨i, c, t, e1, e2⟩ := SeqC.head_comp p hw false 0 0 0
  have hsize : G.code.length = size false p := by rw [hcode, comp_length]
  have h0 : G.code[0]? = some (some i) := by rw [hcode, e1]; rfl
  have hH0 : G.H[0]? = some 0 := by rw [hH, e2]; rfl
  have hat : G.At 0 (comp 0 0 false p) (SeqC.hts false 0 p) := ⟨Win.self _, Win.self _⟩
  have hex : SeqC.exitD p = 1 := by subst hp; simp [SeqC.exitD, isUnitNode]
  have hall := (SeqC.ok_all G p).1 hw false 0 0 0 0 hat
    (.inr ⟨by rw [hsize]; omega, by rw [hex]; rfl⟩) (by intro h; rw [hesc] at h; cases h)
  rw [hC, hcert]
  refine Ctx.check_of_okwin i h0 hH0 ?_ (.inr ⟨rfl, rfl⟩)
  rw [hsize]
  exact hall

/-! ### `compile_balanced` for the container fragment -/

/-- the full statement, WITHOUT the nesting guard: false (`seq_compile_balanced_full_false`) — an
    expression nested deeper than the frame's height limit overflows whatever the compiler does -/
def seq_compile_balanced_full : Prop :=
  ∀ p, inSeq p = true → check (SeqC.toC04 (compSeq p)) (certSeq p) = true

/-- **`compile_balanced` for the container fragment**: for every program of C01's fragment F6
    (lists with identity, index reads and writes incl. `a[i] op= e`, deep `==`, the four range-loop
    forms over lists and ints with the iterator kept in its stack slot, `break` / `continue` inside
    them, on top of everything of F1–F3) whose operand nesting fits the frame, the main code
    `compSeq p` carries the certificate `certSeq p` computes from the syntax tree — the height before
    every instruction slot, with the iterator slot of every enclosing range loop accounted for — and
    the verified checker accepts it. -/
theorem seq_compile_balanced (p : N) (hin : inSeq p = true) (hfit : fitsSeq p = true) :
    check (SeqC.toC04 (compSeq p)) (certSeq p) = true :=
  seq_cert_accepted p hin hfit

/-- there is an accepted certificate -/
theorem seq_compile_balanced_exists (p : N) (hin : inSeq p = true) (hfit : fitsSeq p = true) :
    ∃ cert, check (SeqC.toC04 (compSeq p)) cert = true :=
  ⟨_, seq_compile_balanced p hin hfit⟩

/-- **The same with a purely syntactic guard**: `SeqC.depth p`, the operand nesting depth by
    recursion on the syntax (operators holding their left value, a `switch` its subject, a list
    literal its earlier items, an item assignment its right-hand side and container, a range loop
    its iterator and loop values), within the frame's limit.  The iteration count of loops and the
    lengths of the lists ranged over play no role. -/
theorem seq_compile_balanced_of_depth (p : N) (hin : inSeq p = true) (hd : SeqC.depth p ≤ maxHeight) :
    check (SeqC.toC04 (compSeq p)) (certSeq p) = true :=
  seq_compile_balanced p hin (SeqC.fitsSeq_of_depth p hd)

/-! ### corollaries: every execution of the code -/

/-- **Heights are those of the syntax tree**: in every execution (any number of steps, any branch
    outcomes, any number of loop iterations, any list lengths) the operand-stack height at an
    offset is the one `certSeq p` names -/
theorem seq_heights (p : N) (hin : inSeq p = true) (hfit : fitsSeq p = true) (s : St)
    (hr : Reach (SeqC.toC04 (compSeq p)) s) :
    s.pc ≤ (SeqC.toC04 (compSeq p)).size ∧ (certSeq p)[s.pc]? = some (some s.h) ∧ s.h ≤ maxHeight :=
  check_sound _ _ (seq_compile_balanced p hin hfit) s hr

/-- **No underflow**: no instruction ever pops below the frame's base (`BuildList n` always finds
    its `n` items, `StoreSubscr` its three operands, `ForIter` its iterator, the `PopTop` of a
    `break` the iterator it drops), control never lands on an operand slot, and the height never
    exceeds `maxHeight` -/
theorem seq_no_underflow (p : N) (hin : inSeq p = true) (hfit : fitsSeq p = true) (s : St)
    (hr : Reach (SeqC.toC04 (compSeq p)) s) :
    s.h ≤ maxHeight ∧
    (s.pc < (SeqC.toC04 (compSeq p)).size → ∃ i l, (SeqC.toC04 (compSeq p)).at s.pc = some i ∧ succs i s.pc s.h = some l) :=
  ⟨(check_sound _ _ (seq_compile_balanced p hin hfit) s hr).2.2,
    no_underflow _ _ (seq_compile_balanced p hin hfit) s hr⟩

/-- **Every loop head has one height**: in every execution of ANY program of the container
    fragment, two visits of one offset — the `ForIter` of a range loop on its first and on its
    ten-millionth round, the head of a loop nested in three range loops, after any number of
    `break`s and `continue`s — see the same operand-stack height: the iterator a range loop keeps on
    the stack neither accumulates nor is lost. -/
theorem seq_loop_heights (p : N) (hin : inSeq p = true) (hfit : fitsSeq p = true) (s t : St)
    (hs : Reach (SeqC.toC04 (compSeq p)) s) (ht : Reach (SeqC.toC04 (compSeq p)) t) (hpc : s.pc = t.pc) :
    s.h = t.h :=
  loop_height_constant _ _ (seq_compile_balanced p hin hfit) s t hs ht hpc

/-- **A finished run leaves exactly its result**: control reaches the end of the code with
    exactly one value on the stack — no iterator of any range loop, however it was left, is still
    there -/
theorem seq_finished_run_leaves_result (p : N) (hin : inSeq p = true) (hfit : fitsSeq p = true) (s : St)
    (hr : Reach (SeqC.toC04 (compSeq p)) s) (hend : s.pc = (SeqC.toC04 (compSeq p)).size) : s.h = 1 :=
  (finished_run_leaves_result _ _ (seq_compile_balanced p hin hfit) s hr hend).2

/-! ### the checker's effect table agrees with the machine of `Seq.lean` on the container and
    iteration instructions

`Ins.kind` gives `BUILD_LIST n` the effect `.fall n 1`, `BINARY_SUBSCR` `.fall 2 1`, `STORE_SUBSCR`
`.fall 3 0`, `GET_ITER` `.fall 1 1`, `POP_TOP` `.fall 1 0` and `FOR_ITER d m` the kind
`.forIter d m`: two successors, `(pc + d, h - 1)` and `(pc + 3, h + forIterPush m)`.  Each lemma
says: whenever `Seq.execIns` executes the instruction, the machine's next position and
operand-stack length are EXACTLY a successor the checker computes — and the machine executes the
instruction only where the checker sees no underflow. -/

/-- `BuildList n`: executes exactly when `n` values are there; pops them, pushes ONE (the list) -/
theorem buildList_effect (n : Nat) (c : Cfg) :
    (∀ c', execIns (.buildList n) c = .ok c' → n ≤ c.stk.length ∧ c'.stk.length = c.stk.length - n + 1 ∧
      succs (SeqC.insOf (.buildList n)) c.pc c.stk.length = some [(c'.pc, c'.stk.length)]) ∧
    ((∃ c', execIns (.buildList n) c = .ok c') ↔ succs (SeqC.insOf (.buildList n)) c.pc c.stk.length ≠ none) := by
  obtain ⟨pc, stk, σ⟩ := c
  have hex : execIns (.buildList n) ⟨pc, stk, σ⟩ =
      (if n ≤ stk.length then
        .ok { pc := pc + 2, stk := .ref (σ.alloc (stk.take n).reverse).1 :: stk.drop n, σ := (σ.alloc (stk.take n).reverse).2 }
       else .error (.err "panic")) := by
    cases stk <;> rfl
  by_cases hle : n ≤ stk.length
  · refine ⟨?_, ?_⟩
    · intro c' h
      rw [hex, if_pos hle] at h
      simp only [Except.ok.injEq] at h
      subst h
      refine ⟨hle, by simp only [List.length_cons, List.length_drop], ?_⟩
      simp [succs, SeqC.insOf, Ins.kind, Ins.size, Op.operands, hle]
    · rw [hex, if_pos hle]
      simp [succs, SeqC.insOf, Ins.kind, hle]
  · refine ⟨?_, ?_⟩
    · intro c' h
      rw [hex, if_neg hle] at h
      cases h
    · rw [hex, if_neg hle]
      simp [succs, SeqC.insOf, Ins.kind, hle]

/-- `BinarySubscr`: whenever it executes it popped the index and the container and pushed ONE
    value; with fewer than two values it does not execute -/
theorem binarySubscr_effect (c c' : Cfg) (h : execIns .binarySubscr c = .ok c') :
    2 ≤ c.stk.length ∧ c'.stk.length + 1 = c.stk.length ∧
      succs (SeqC.insOf .binarySubscr) c.pc c.stk.length = some [(c'.pc, c'.stk.length)] := by
  obtain ⟨pc, stk, σ⟩ := c
  rcases stk with _ | ⟨a, _ | ⟨b, s⟩⟩ <;> simp only [execIns] at h <;> try cases h
  split at h
  · simp only [Except.ok.injEq] at h
    subst h
    simp [succs, SeqC.insOf, Ins.kind, Ins.size, Op.operands]
  · cases h

/-- `StoreSubscr`: whenever it executes it popped index, container and right-hand side and pushed
    NOTHING; with fewer than three values it does not execute -/
theorem storeSubscr_effect (c c' : Cfg) (h : execIns .storeSubscr c = .ok c') :
    3 ≤ c.stk.length ∧ c'.stk.length + 3 = c.stk.length ∧
      succs (SeqC.insOf .storeSubscr) c.pc c.stk.length = some [(c'.pc, c'.stk.length)] := by
  obtain ⟨pc, stk, σ⟩ := c
  rcases stk with _ | ⟨a, _ | ⟨b, _ | ⟨r, s⟩⟩⟩ <;> simp only [execIns] at h <;> try cases h
  split at h
  · simp only [Except.ok.injEq] at h
    subst h
    simp [succs, SeqC.insOf, Ins.kind, Ins.size, Op.operands]
  · cases h

/-- `GetIter`: pops the container, pushes ONE value — the iterator that stays in this slot for
    the whole loop -/
theorem getIter_effect (c c' : Cfg) (h : execIns .getIter c = .ok c') :
    1 ≤ c.stk.length ∧ c'.stk.length = c.stk.length ∧ (∃ it s, c'.stk = it :: s ∧ isIter it = true) ∧
      succs (SeqC.insOf .getIter) c.pc c.stk.length = some [(c'.pc, c'.stk.length)] := by
  obtain ⟨pc, stk, σ⟩ := c
  rcases stk with _ | ⟨v, s⟩ <;> simp only [execIns] at h <;> try cases h
  cases hg : getIterS v with
  | error e => simp [hg] at h
  | ok it =>
    simp only [hg, Except.ok.injEq] at h
    subst h
    refine ⟨by simp, rfl, ⟨it, s, rfl, getIterS_isIter hg⟩, ?_⟩
    simp [succs, SeqC.insOf, Ins.kind, Ins.size, Op.operands]

/-- the number of values `ForIter d m` pushes in C01's machine (`pushKV`) is the checker's
    `forIterPush m`, for every number of loop variables: 0, 1, 2, and 3 = `for v in` (one value) -/
theorem pushKV_forIterPush (m : Nat) (key value : SVal) (vals : List SVal) (h : pushKV m key value = some vals) :
    forIterPush m = some vals.length := by
  unfold pushKV at h
  unfold forIterPush
  by_cases h0 : m = 0
  · subst h0; simp at h; subst h; rfl
  · by_cases h1 : m = 1
    · subst h1; simp at h; subst h; rfl
    · by_cases h2 : m = 2
      · subst h2; simp at h; subst h; rfl
      · by_cases h3 : m = 3
        · subst h3; simp at h; subst h; rfl
        · simp [h0, h1, h2, h3] at h

/-- **`ForIter` on exhaustion drops the iterator**: the machine arrives `d` slots further with the
    stack one SHORTER — the checker's first successor `(pc + d, h - 1)` — whatever `m` is -/
theorem forIter_exhausted_drops (d m pc : Nat) (it : SVal) (s : List SVal) (σ : Seq.St) (hi : isIter it = true)
    (hn : iterNext σ it = none) :
    execIns (.forIter d m) ⟨pc, it :: s, σ⟩ = .ok ⟨pc + d, s, σ⟩ := by
  simp [execIns, hi, hn]

/-- **`ForIter` on a further entry keeps the (advanced) iterator in its slot** and pushes the loop
    values above it: the stack is `forIterPush m` LONGER — the checker's second successor -/
theorem forIter_next_keeps (d m pc : Nat) (it it' key value : SVal) (vals s : List SVal) (σ : Seq.St) (hi : isIter it = true)
    (hn : iterNext σ it = some (it', key, value)) (hv : pushKV m key value = some vals) :
    execIns (.forIter d m) ⟨pc, it :: s, σ⟩ = .ok ⟨pc + 3, vals ++ it' :: s, σ⟩ ∧
      forIterPush m = some vals.length ∧ isIter it' = true :=
  ⟨by simp [execIns, hi, hn, hv], pushKV_forIterPush m key value vals hv, iterNext_isIter hn⟩

/-- `ForIter d m`, both edges, every number of loop variables the compiler emits (`m` = 0, 1, 2, or
    3 for `for v in`: `forIterPush m = some k`): whenever the machine executes it, the checker's
    `succs` is defined (an iterator was there) and the machine took ONE OF ITS TWO successors: the
    exhaustion edge `(pc + d, h - 1)` or the iteration edge `(pc + 3, h + k)` -/
theorem forIter_effect (d m k : Nat) (hp : forIterPush m = some k) (c c' : Cfg) (h : execIns (.forIter d m) c = .ok c') :
    1 ≤ c.stk.length ∧
      succs (SeqC.insOf (.forIter d m)) c.pc c.stk.length =
        some [(c.pc + d, c.stk.length - 1), (c.pc + 3, c.stk.length + k)] ∧
      ((c'.pc = c.pc + d ∧ c'.stk.length = c.stk.length - 1) ∨ (c'.pc = c.pc + 3 ∧ c'.stk.length = c.stk.length + k)) := by
  obtain ⟨pc, stk, σ⟩ := c
  rcases stk with _ | ⟨it, s⟩ <;> simp only [execIns] at h <;> try cases h
  by_cases hi : isIter it = true
  · simp only [hi, ↓reduceIte] at h
    cases hn : iterNext σ it with
    | none =>
      simp only [hn, Except.ok.injEq] at h
      subst h
      exact ⟨by simp, by simp [succs, SeqC.insOf, Ins.kind, Ins.size, Op.operands, hp], .inl ⟨rfl, by simp⟩⟩
    | some r =>
      obtain ⟨it', key, value⟩ := r
      simp only [hn] at h
      cases hv : pushKV m key value with
      | none => simp [hv] at h
      | some vals =>
        simp only [hv, Except.ok.injEq] at h
        subst h
        have hp' := pushKV_forIterPush m key value vals hv
        rw [hp] at hp'
        have hk : k = vals.length := Option.some.inj hp'
        refine ⟨by simp, by simp [succs, SeqC.insOf, Ins.kind, Ins.size, Op.operands, hp], .inr ⟨rfl, ?_⟩⟩
        simp only [List.length_append, List.length_cons]; omega
  · simp [hi] at h

/-- the `PopTop` a `break` out of a range loop executes first: it pops exactly ONE value — with
    the certified height of the loop body (`seq_heights`) that value is the loop's iterator -/
theorem break_popTop_effect (c c' : Cfg) (h : execIns .popTop c = .ok c') :
    1 ≤ c.stk.length ∧ c'.stk.length + 1 = c.stk.length ∧ c'.stk = c.stk.tail ∧
      succs (SeqC.insOf .popTop) c.pc c.stk.length = some [(c'.pc, c'.stk.length)] := by
  obtain ⟨pc, stk, σ⟩ := c
  rcases stk with _ | ⟨v, s⟩ <;> simp only [execIns] at h <;> try cases h
  simp [succs, SeqC.insOf, Ins.kind, Ins.size, Op.operands]

/-- **One step of C01's container machine is one step of the height abstraction**, for EVERY
    instruction of the fragment (a backward jump must stay inside the code and `ForIter`'s second
    operand must be one of 0..3 — both of which `check` verifies): the machine's next position and
    operand-stack length are among the successors `succs` computes from `Ins.kind` — so
    `check_sound`'s `Reach` covers every run of `Seq.step` on a code object. -/
theorem seq_execIns_step (i : Seq.FIns) (c c' : Cfg) (h : execIns i c = .ok c') (hjb : ∀ d, i = .jb d → d ≤ c.pc)
    (hfi : ∀ d m, i = .forIter d m → forIterPush m ≠ none) :
    ∃ l, succs (SeqC.insOf i) c.pc c.stk.length = some l ∧ (c'.pc, c'.stk.length) ∈ l := by
  cases i with
  | buildList n => exact ⟨_, ((buildList_effect n c).1 c' h).2.2, by simp⟩
  | binarySubscr => exact ⟨_, (binarySubscr_effect c c' h).2.2, by simp⟩
  | storeSubscr => exact ⟨_, (storeSubscr_effect c c' h).2.2, by simp⟩
  | getIter => exact ⟨_, (getIter_effect c c' h).2.2.2, by simp⟩
  | forIter d m =>
    cases hp : forIterPush m with
    | none => exact absurd hp (hfi d m rfl)
    | some k =>
      obtain ⟨_, h2, h3⟩ := forIter_effect d m k hp c c' h
      refine ⟨_, h2, ?_⟩
      rcases h3 with ⟨e1, e2⟩ | ⟨e1, e2⟩ <;> simp [e1, e2]
  | jb d =>
    obtain ⟨pc, stk, σ⟩ := c
    have hd := hjb d rfl
    simp only [execIns, Except.ok.injEq] at h
    subst h
    exact ⟨[(pc - d, stk.length)], by simp only [succs, SeqC.insOf, Ins.kind]; simp only at hd; simp [hd], by simp⟩
  | copy k =>
    obtain ⟨pc, stk, σ⟩ := c
    simp only [execIns] at h
    cases hk : stk[k]? with
    | none => simp [hk] at h
    | some v =>
      simp only [hk, Except.ok.injEq] at h
      subst h
      have hlt : k < stk.length := by
        rcases Nat.lt_or_ge k stk.length with h1 | h1
        · exact h1
        · rw [List.getElem?_eq_none h1] at hk; cases hk
      exact ⟨[(pc + 2, stk.length + 1)], by simp [succs, SeqC.insOf, Ins.kind, Ins.size, Op.operands]; omega, by simp⟩
  | swap k =>
    obtain ⟨pc, stk, σ⟩ := c
    cases stk with
    | nil => simp [execIns] at h
    | cons top s =>
      simp only [execIns] at h
      by_cases hk0 : (k == 0) = true
      · simp only [hk0, ↓reduceIte, Except.ok.injEq] at h
        subst h
        have : k = 0 := by simpa using hk0
        subst this
        exact ⟨[(pc + 2, s.length + 1)], by simp [succs, SeqC.insOf, Ins.kind, Ins.size, Op.operands], by simp⟩
      · simp only [hk0, Bool.false_eq_true, ↓reduceIte] at h
        cases hk : s[k - 1]? with
        | none => simp [hk] at h
        | some other =>
          simp only [hk, Except.ok.injEq] at h
          subst h
          have hlt : k - 1 < s.length := by
            rcases Nat.lt_or_ge (k - 1) s.length with h1 | h1
            · exact h1
            · rw [List.getElem?_eq_none h1] at hk; cases hk
          have hk1 : k ≠ 0 := by intro e; subst e; simp at hk0
          exact ⟨[(pc + 2, s.length + 1)],
            by simp [succs, SeqC.insOf, Ins.kind, Ins.size, Op.operands]; omega, by simp⟩
  | _ =>
    obtain ⟨pc, stk, σ⟩ := c
    rcases stk with _ | ⟨a, _ | ⟨b, s⟩⟩ <;>
      simp only [execIns] at h <;>
      (try split at h) <;>
      simp only [Except.ok.injEq, reduceCtorEq] at h <;>
      (try subst h) <;>
      simp [succs, SeqC.insOf, Ins.kind, Ins.size, Op.operands]

/-! ### every run of C01's container machine on `compSeq p`: the heights are the certified ones -/

/-- **The certified heights are the machine's**: in every configuration `Seq.step` reaches on
    `compSeq p` from the initial one — after any number of steps, rounds of any range loop, `break`s
    and `continue`s — the machine's (offset, operand count) is a `Reach` state of the code object;
    hence (`seq_heights`) its operand count is `certSeq p`'s entry for the offset, the instruction
    about to run finds its operands, and the iterator of every enclosing range loop is in place. -/
theorem seq_machine_heights (p : N) (hin : inSeq p = true) (hfit : fitsSeq p = true) (a b : Cfg)
    (hs : Steps (compSeq p) a b) (ha : Reach (SeqC.toC04 (compSeq p)) ⟨a.pc, a.stk.length⟩) :
    Reach (SeqC.toC04 (compSeq p)) ⟨b.pc, b.stk.length⟩ := by
  induction hs with
  | refl => exact ha
  | @cons a b c hst _ ih =>
    apply ih
    unfold step at hst
    split at hst
    · cases hst
    · split at hst
      · rename_i i hi
        have hat : (SeqC.toC04 (compSeq p)).at a.pc = some (SeqC.insOf i) := by
          simp [SeqC.toC04, Code.at, hi]
        have hlt : a.pc < (SeqC.toC04 (compSeq p)).size := by
          rcases Nat.lt_or_ge a.pc (SeqC.toC04 (compSeq p)).size with h1 | h1
          · exact h1
          · simp [Code.at, Array.getElem?_eq_none h1] at hat
        obtain ⟨j, l0, hj, hl0⟩ := (seq_no_underflow p hin hfit _ ha).2 hlt
        simp only at hj hl0
        rw [hat] at hj
        cases hj
        obtain ⟨l, hl, hmem⟩ := seq_execIns_step i a b hst
          (by
            intro d hd
            subst hd
            simp only [succs, SeqC.insOf, Ins.kind] at hl0
            split at hl0
            · assumption
            · cases hl0)
          (by
            intro d m hd hnone
            subst hd
            simp [succs, SeqC.insOf, Ins.kind, hnone] at hl0)
        exact .step ha (.mk hat hl hmem)
      · cases hst

/-- the machine's operand count at every configuration it reaches from the start is the height
    the syntax tree names for that offset -/
theorem seq_machine_cert (p : N) (hin : inSeq p = true) (hfit : fitsSeq p = true) (b : Cfg) (σ0 : Seq.St)
    (hs : Steps (compSeq p) ⟨0, [], σ0⟩ b) : (certSeq p)[b.pc]? = some (some b.stk.length) :=
  (seq_heights p hin hfit _ (seq_machine_heights p hin hfit _ b hs .init)).2.1

/-! ### the operands `SeqC.toC04` drops are irrelevant to the checker -/

/-- `SeqC.toC04` produces code whose `LOAD_CONST` / `LOAD_GLOBAL` / `STORE_GLOBAL` operands are
    erased: it is a fixed point of `eraseIdx` (and `check_eraseIdx`: erasing never changes what
    `check` accepts), so "the real bytecode, erased, IS `SeqC.toC04 (compSeq p)`" is the tie the
    oracle evaluates -/
theorem eraseIdx_seq_toC04 (code : Seq.Code) : eraseIdx (SeqC.toC04 code) = SeqC.toC04 code := by
  simp only [eraseIdx, SeqC.toC04, List.map_toArray, List.map_map]
  congr 2
  apply List.map_congr_left
  intro s _
  cases s with
  | none => rfl
  | some i => cases i <;> rfl

/-! ### the guard `fitsSeq` cannot be dropped -/

/-- **The nesting guard is necessary**: without `fitsSeq`, `compile_balanced` is false on the
    container fragment too — the program `1 + (1 + (… + 1))` with 1024 additions is in the fragment
    (`inSeq`), and NO certificate is accepted for its code, because an execution reaches height
    1025 > `maxHeight` (all operands pending at once; no loop is involved). -/
theorem seq_compile_balanced_needs_fits :
    ¬ ∀ p, inSeq p = true → ∃ cert, check (SeqC.toC04 (compSeq p)) cert = true := by
  intro h
  obtain ⟨cert, hc⟩ := h (deepProg 1024) (SeqC.deepProg_inSeq _)
  have hcode : compSeq (deepProg 1024) = comp 0 0 false (deep 1024) := by
    simp [compSeq, deepProg, comp, pre, Frag.postName, Frag.isNilL, Frag.leaves]
  have hw : Win (compSeq (deepProg 1024)) 0 (comp 0 0 false (deep 1024)) := by
    rw [hcode]; exact Win.self _
  have r := SeqC.deep_reach false _ 1024 0 0 hw .init
  have := (check_sound _ _ hc _ r).2.2
  simp only [maxHeight] at this
  omega

/-- the full statement (no nesting guard) is false -/
theorem seq_compile_balanced_full_false : ¬ seq_compile_balanced_full := by
  intro h
  apply seq_compile_balanced_needs_fits
  intro p hin
  exact ⟨_, h p hin⟩

/-! ### non-vacuity: concrete programs of the container fragment with their concrete certificates;
    the hypotheses hold and the statements evaluate -/

private def SL (xs : List N) : N := N.ofList xs

/-- `n := 0; for k := range 4 { for v in [1, 2, 3] { if v == 1 { continue }; if v == 3 { break }; n += v };
    if k == 2 { break } }; n` → 6: a range loop nested in a range loop, `continue` and `break` in
    the inner one, `break` in the outer one -/
def exSeqNestBC : N :=
  .prog (SL [.var "n" (.int 0),
    .forrange "k" "" (.int 4) (.block (SL [
      .forin "v" (.list (SL [.int 1, .int 2, .int 3])) (.block (SL [
        .expr (.if_ (.infix .eq (.id "v") (.int 1)) (.block (SL [.continue_])) .none_),
        .expr (.if_ (.infix .eq (.id "v") (.int 3)) (.block (SL [.break_])) .none_),
        .assign "n" .add (.id "v")])),
      .expr (.if_ (.infix .eq (.id "k") (.int 2)) (.block (SL [.break_])) .none_)])),
    .expr (.id "n")])

/-- `a := [1, 2, 3]; for i := range a { a[i] += 10 }; a[0]` → 11: a compound item assignment
    (container and index evaluated twice) inside a range loop -/
def exSeqCompound : N :=
  .prog (SL [.var "a" (.list (SL [.int 1, .int 2, .int 3])),
    .forrange "i" "" (.id "a") (.block (SL [.setitem .add (.id "a") (.id "i") (.int 10)])),
    .expr (.index (.id "a") (.int 0))])

/-- the theorem's conclusion, evaluated -/
def seqAccepted (p : N) : Bool := check (SeqC.toC04 (compSeq p)) (certSeq p)

example : inSeq exSum = true ∧ fitsSeq exSum = true ∧ SeqC.depth exSum ≤ 10 := by decide
example : inSeq exSeqNestBC = true ∧ fitsSeq exSeqNestBC = true := by decide
example : inSeq exSeqCompound = true ∧ fitsSeq exSeqCompound = true := by decide
example : (evalSeq 200 exSeqNestBC).1 = .val (.int 6) ∧ (evalSeq 200 exSeqCompound).1 = .val (.int 11) := by decide

set_option maxRecDepth 8000 in
/-- sum by range, `s := 0; for i, v := range [10, 20, 30] { s += v + i }; s` (C01's `exSum`), is
    accepted with its concrete certificate: the list literal holds 1, 2, 3 items (`BuildList 3` at
    3), `GetIter` and `ForIter d 2` at 1, the two loop values stored at 3 and 2, the BODY at 1 (one
    above the statement level 0: the iterator), its operands up to 4, the body's value popped at 2,
    the backward jump at 1; after the loop 0 again; the program ends with ONE value -/
example : seqAccepted exSum = true ∧ (certSeq exSum).toList =
    [some 0, none, some 1, none, some 0, none, some 1, none, some 2, none, some 3, none, some 1, some 1, none, none,
     some 3, none, some 2, none, some 1, none, some 2, none, some 3, none, some 4, none, some 3, none, some 2, none,
     some 1, some 2, some 1, none, some 0, none, some 1] := by decide

set_option maxRecDepth 16000 in
/-- the nested range loops with `continue` and `break`: the inner body runs at 2 (two iterators);
    the inner `break` is `PopTop` at 2, `JumpForward` at 1; the outer `break` `PopTop` at 1,
    `JumpForward` at 0; the `continue` jumps at 2 -/
example : seqAccepted exSeqNestBC = true ∧ (certSeq exSeqNestBC).toList =
    [some 0, none, some 1, none, some 0, none, some 1, some 1, none, none, some 2, none, some 1, none, some 2, none,
     some 3, none, some 4, none, some 2, some 2, none, none, some 3, none, some 2, none, some 3, none, some 4, none,
     some 3, none, some 2, none, some 2, some 3, none, some 2, some 3, some 2, none, some 3, none, some 4, none, some 3,
     none, some 2, some 1, none, some 2, some 3, none, some 2, some 3, some 2, none, some 3, none, some 4, none, some 3,
     none, some 2, some 3, some 2, none, some 1, none, some 2, none, some 3, none, some 2, none, some 1, some 0, none,
     some 1, some 2, none, some 1, some 2, some 1, none, some 0, none, some 1] := by decide

set_option maxRecDepth 8000 in
/-- `a[i] += 10` inside a range loop: container 1, index 2, `BinarySubscr` 3, right-hand side 2,
    `BinaryOp` 3, container and index again 2, 3, `StoreSubscr` 4 (its three operands on top of the
    iterator), back to 1 -/
example : seqAccepted exSeqCompound = true ∧ (certSeq exSeqCompound).toList =
    [some 0, none, some 1, none, some 2, none, some 3, none, some 1, none, some 0, none, some 1, some 1, none, none,
     some 2, none, some 1, none, some 2, none, some 3, some 2, none, some 3, none, some 2, none, some 3, none, some 4,
     some 1, some 2, some 1, none, some 0, none, some 1, none, some 2, some 1] := by decide

/-- C01's other range examples (break + continue in one loop, a body that writes to the list it
    ranges over, `break` in a `for v in` nested in `for k := range 4`) -/
example : seqAccepted exBreak = true ∧ seqAccepted exMutate = true ∧ seqAccepted exNest2 = true := by decide

example : check (SeqC.toC04 (compSeq exSeqNestBC)) (certSeq exSeqNestBC) = true :=
  seq_compile_balanced exSeqNestBC (by decide) (by decide)

/-- the execution theorems are not vacuous: the entry state is reachable -/
example : (certSeq exSeqCompound)[0]? = some (some 0) :=
  (seq_heights exSeqCompound (by decide) (by decide) ⟨0, 0⟩ .init).2.1

/-- outside the fragment the syntax-tree certificate is refused as it should be: a `break` under a
    pending operand inside a range loop (C01's `exUnder`, C04's known finding `C04-ctl-under-operands`) -/
example : inSeq exUnder = false ∧ seqAccepted exUnder = false := by decide

/-! ### a `break` that leaves the iterator on the stack is rejected -/

/-- `for v in xs { break }` as the fragment compiles it: … `ForIter 12 3; StoreGlobal v;
    PopTop; JumpForward 6; Nil; PopTop; JumpBackward 10; Nil` -/
def exSeqBreakOnly : N := .prog (SL [.forin "v" (.id "xs") (.block (SL [.break_]))])

/-- the same loop with the `PopTop` of the `break` LEFT OUT (and the three jump distances that
    span it shortened by one): the `break` jumps out of the loop with the iterator still on the
    stack -/
def keepIterAtBreak : Seq.Code :=
  [some (.loadG "xs"), none, some .getIter, some (.forIter 11 3), none, none, some (.storeG "v"), none,
   some (.jf 6), none, some .nil_, some .popTop, some (.jb 9), none, some .nil_]

example : seqAccepted exSeqBreakOnly = true ∧
    compSeq exSeqBreakOnly =
      [some (.loadG "xs"), none, some .getIter, some (.forIter 12 3), none, none, some (.storeG "v"), none,
       some .popTop, some (.jf 6), none, some .nil_, some .popTop, some (.jb 10), none, some .nil_] ∧
    (certSeq exSeqBreakOnly).toList =
      [some 0, none, some 1, some 1, none, none, some 2, none, some 1, some 0, none, some 1, some 2, some 1, none,
       some 0, some 1] := by decide

/-- the variant is rejected with the certificate of the correct code laid over it (whichever of
    the two heights, 0 or 1, the exit of the loop is given), and the inference finds the two paths -/
example :
    check (SeqC.toC04 keepIterAtBreak)
      #[some 0, none, some 1, some 1, none, none, some 2, none, some 1, none, some 1, some 2, some 1, none, some 0, some 1] = false ∧
    check (SeqC.toC04 keepIterAtBreak)
      #[some 0, none, some 1, some 1, none, none, some 2, none, some 1, none, some 1, some 2, some 1, none, some 1, some 2] = false ∧
    (match infer (SeqC.toC04 keepIterAtBreak) with | .ok _ => false | .error _ => true) = true := by decide

/-- **no certificate whatsoever** makes the checker accept the loop whose `break` keeps the
    iterator: the slot after the loop is reached with height 0 by `ForIter`'s exhaustion edge and
    with height 1 by the `break` -/
theorem seq_keep_iterator_at_break_rejected (cert : Cert) : check (SeqC.toC04 keepIterAtBreak) cert = false := by
  cases hc : check (SeqC.toC04 keepIterAtBreak) cert with
  | false => rfl
  | true =>
    exfalso
    have r0 : Reach (SeqC.toC04 keepIterAtBreak) ⟨0, 0⟩ := .init
    have r1 : Reach (SeqC.toC04 keepIterAtBreak) ⟨2, 1⟩ :=
      .step r0 (.mk (i := ⟨.loadGlobal, 0, 0⟩) (l := [(2, 1)]) rfl rfl (by simp))
    have r2 : Reach (SeqC.toC04 keepIterAtBreak) ⟨3, 1⟩ :=
      .step r1 (.mk (i := ⟨.getIter, 0, 0⟩) (l := [(3, 1)]) rfl rfl (by simp))
    have r3 : Reach (SeqC.toC04 keepIterAtBreak) ⟨14, 0⟩ :=
      .step r2 (.mk (i := ⟨.forIter, 11, 3⟩) (l := [(14, 0), (6, 2)]) rfl rfl (by simp))
    have r4 : Reach (SeqC.toC04 keepIterAtBreak) ⟨6, 2⟩ :=
      .step r2 (.mk (i := ⟨.forIter, 11, 3⟩) (l := [(14, 0), (6, 2)]) rfl rfl (by simp))
    have r5 : Reach (SeqC.toC04 keepIterAtBreak) ⟨8, 1⟩ :=
      .step r4 (.mk (i := ⟨.storeGlobal, 0, 0⟩) (l := [(8, 1)]) rfl rfl (by simp))
    have r6 : Reach (SeqC.toC04 keepIterAtBreak) ⟨14, 1⟩ :=
      .step r5 (.mk (i := ⟨.jumpForward, 6, 0⟩) (l := [(14, 1)]) rfl rfl (by simp))
    have := loop_height_constant _ cert hc _ _ r3 r6 rfl
    simp at this

end Risor.C04
