import RisorModel.C04.Model
import RisorModel.C04.FragCert
import RisorModel.C04.FunCert
import RisorModel.C01.Clo
/-
C04 on C01's CLOSURE fragment F5 — definitions.

`Clo.compClo p` compiles a program into SEVERAL code objects: the main code and one per function
literal, at any nesting depth (`Clo.funsOf p`: the functions written in the main code AND the
literals in their bodies).  `CloC.toC04 isMain code` turns one of them into C04's `Code`, slot for
slot, dropping only operands `Ins.kind` (hence `check`) never reads: the pool index of
`LOAD_CONST` and of `LOAD_CLOSURE` (its FIRST operand; the second — the number of cells it pops —
is kept), the table index of `LOAD_GLOBAL` / `STORE_GLOBAL`, the slot index of `LOAD_FAST` /
`STORE_FAST`, the free-variable index of `LOAD_FREE` / `STORE_FREE`, the local index of
`MAKE_CELL` (its first operand; the second, `framesBack`, is kept: always 0 in F5).  `eraseIdxC`
drops the same operands from a decoded REAL code object, so that "the real bytecode is `toC04` of
the model's code" is a literal equality the oracle evaluates on every run (`CloCertOracle.lean`).

`CloC.hts ls h n` is the operand-stack height before every SLOT of `Clo.comp ls kb kc n`
(independent of `kb`, `kc`; dependent on the scope `ls` only through the NUMBER of captures of the
literals in `n`) when the node starts at height `h`; it extends `FunC.hts` to what F5 adds:

  * a function literal as an EXPRESSION, anywhere an expression may stand.  Without captures:
    `LoadConst fn` at `h`.  With `k` captures (`Clo.capt ls.ls lit`, one per free resolution):
    `MakeCell x_i 0` at `h + i` for `i = 0 … k-1` (each pushes one cell: three slots), then
    `LoadClosure fn k` at `h + k`, which pops the `k` cells and pushes ONE closure: the node ends at
    `h + 1` like any expression (`mkH`);
  * `func f(…) {…}` as a statement: the same, then `Copy 0; Store f; PopTop`
    (`h + 1`, `h + 2`, `h + 1`, back to `h`);
  * `LoadFree x` / `StoreFree x` wherever the resolution of a name picks them: the heights of
    `LoadFast` / `StoreFast` (`+1` / `-1`).

`CloC.htsFn ls stmts` is the height list of a whole function body `Clo.compFnStmts ls stmts`: a
body — of a top-level function or of a closure — is entered at height 0 WHATEVER the caller has
on its stack, and every path ends in `ReturnValue`, so its certificate marks the end-of-code
position unreachable.  `certClo p` is the list of certificates of ALL code objects of `compClo p`.
Core Lean only.
-/
namespace Risor.C04
open Risor.C01 Risor.C01.Clo
open Risor.C01.Frag (isNilL postName isDefault)

/-- operands `check` never reads (see the header) -/
def eraseInsC (i : Ins) : Ins :=
  match i.op with
  | .loadConst | .loadGlobal | .storeGlobal | .loadFast | .storeFast | .loadFree | .storeFree
  | .makeCell | .loadClosure => { i with a := 0 }
  | _ => i

def eraseIdxC (c : Code) : Code := { c with slots := c.slots.map (Option.map eraseInsC) }

/-- heights of an instruction with two operand slots (the operand slots repeat it; they are masked) -/
def r3 (h : Nat) : List Nat := [h, h, h]

namespace CloC

/-- one instruction of the closure fragment as a C04 instruction (pool / table / slot / free
    indices erased; `Call n` keeps its argument count, `LoadClosure fn n` its cell count) -/
def insOf : Clo.FIns → Ins
  | .nop => ⟨.nop, 0, 0⟩
  | .nil_ => ⟨.nil_, 0, 0⟩
  | .true_ => ⟨.true_, 0, 0⟩
  | .false_ => ⟨.false_, 0, 0⟩
  | .popTop => ⟨.popTop, 0, 0⟩
  | .unaryNeg => ⟨.unaryNegative, 0, 0⟩
  | .unaryNot => ⟨.unaryNot, 0, 0⟩
  | .constInt _ => ⟨.loadConst, 0, 0⟩
  | .constStr _ => ⟨.loadConst, 0, 0⟩
  | .constFn _ => ⟨.loadConst, 0, 0⟩
  | .loadG _ => ⟨.loadGlobal, 0, 0⟩
  | .storeG _ => ⟨.storeGlobal, 0, 0⟩
  | .loadF _ => ⟨.loadFast, 0, 0⟩
  | .storeF _ => ⟨.storeFast, 0, 0⟩
  | .loadFree _ => ⟨.loadFree, 0, 0⟩
  | .storeFree _ => ⟨.storeFree, 0, 0⟩
  | .makeCell _ => ⟨.makeCell, 0, 0⟩
  | .loadClosure _ n => ⟨.loadClosure, 0, n⟩
  | .binary k => ⟨.binaryOp, k, 0⟩
  | .compare k => ⟨.compareOp, k, 0⟩
  | .copy k => ⟨.copy, k, 0⟩
  | .swap k => ⟨.swap, k, 0⟩
  | .jf d => ⟨.jumpForward, d, 0⟩
  | .jb d => ⟨.jumpBackward, d, 0⟩
  | .pjf d => ⟨.popJumpForwardIfFalse, d, 0⟩
  | .pjt d => ⟨.popJumpForwardIfTrue, d, 0⟩
  | .call n => ⟨.call, n, 0⟩
  | .ret => ⟨.returnValue, 0, 0⟩

/-- one code object of a compiled program as a C04 code object -/
def toC04 (isMain : Bool) (code : Clo.Code) : Code :=
  { slots := (code.map (Option.map insOf)).toArray, isMain := isMain }

/-! ### heights -/

/-- `MakeCell x 0` per capture, the first at height `h`: each pushes one cell -/
def cellsH (h : Nat) : List String → List Nat
  | [] => []
  | _ :: r => r3 h ++ cellsH (h + 1) r

/-- the code that pushes a function (`Clo.mkCode`): `LoadConst fn`, or the cells and
    `LoadClosure fn k` on top of all `k` of them -/
def mkH (ls : Sc) (h : Nat) (lit : N) : List Nat :=
  if (capt ls.ls lit).isEmpty then r2 h
  else cellsH h (capt ls.ls lit) ++ r3 (h + (capt ls.ls lit).length)

/-- `x++` in a statement list: `Load x; PopTop` first (`Clo.pre`) -/
def preH (h : Nat) (n : N) : List Nat :=
  match postName n with
  | some _ => r2 h ++ r1 (h + 1)
  | none => []

/-- what a node leaves on the stack when control falls out of its end: a unit statement
    (assignments, loops, named declarations, `return`) nothing, everything else one value -/
def exitD (n : N) : Nat := if isUnitNode n then 0 else 1

mutual
/-- heights before every slot of `Clo.comp ls kb kc n` for a node entered at height `h` -/
def hts (ls : Sc) (h : Nat) : N → List Nat
  | .nilLit | .none_ | .nilL | .bool _ => r1 h
  | .int _ | .str _ | .id _ | .break_ | .continue_ => r2 h
  | .infix op l r =>
    if op = .and then
      hts ls h l ++ r2 (h + 1) ++ r2 (h + 2) ++ hts ls (h + 1) r ++ r2 (h + 2) ++ r1 (h + 1)
    else if op = .or then
      hts ls h l ++ r2 (h + 1) ++ r2 (h + 2) ++ hts ls (h + 1) r ++ r2 (h + 2) ++ r1 (h + 1)
    else hts ls h l ++ hts ls (h + 1) r ++ r2 (h + 2)
  | .neg e | .not e => hts ls h e ++ r1 (h + 1)
  | .tern c a b | .if_ c a b => hts ls h c ++ r2 (h + 1) ++ hts ls h a ++ r2 (h + 1) ++ hts ls h b
  | .block s | .prog s => hts ls h s
  | .func name ps b => mkH ls h (.func name ps b)
  | .expr e =>
    -- `func f(…) {…}`: the function, `Copy 0; Store f; PopTop`
    if isNamed e then mkH ls h e ++ r2 (h + 1) ++ r2 (h + 2) ++ r1 (h + 1) else hts ls h e
  | .cons hd t =>
    preH h hd ++
      (if isNilL t then hts ls h hd ++ (if leaves hd then [] else r1 h)
       else hts ls h hd ++ ((if leaves hd then r1 (h + 1) else []) ++ hts ls h t))
  | .var _ e => hts ls h e ++ r2 (h + 1)
  | .assign _ op e =>
    if op = .set then hts ls h e ++ r2 (h + 1)
    else r2 h ++ hts ls (h + 1) e ++ r2 (h + 2) ++ r2 (h + 1)
  | .postfix _ _ => r2 h ++ r2 (h + 1) ++ r2 (h + 2) ++ r2 (h + 1)
  | .forcond c b => hts ls h c ++ r2 (h + 1) ++ hts ls h b ++ r1 (h + 1) ++ r2 h ++ r1 h
  | .forever b => hts ls h b ++ r1 (h + 1) ++ r2 h ++ r1 h
  | .for3 i c p b =>
    hts ls h i ++ hts ls h c ++ r2 (h + 1) ++ hts ls h b ++ r1 (h + 1)
      ++ hts ls h p ++ (if leaves p then r1 (h + 1) else []) ++ r2 h
  | .switch subj cases =>
    -- the subject stays below everything until `Swap 1; PopTop` drops it
    hts ls h subj ++ htsCmp ls (h + 1) cases ++ r2 (h + 1) ++ htsBodies ls (h + 1) cases
      ++ htsDflt ls (h + 1) cases ++ r2 (h + 2) ++ r1 (h + 2)
  | .call f args =>
    -- the callee, the arguments one above the other, `Call n` on top of all of them
    hts ls h f ++ htsArgs ls (h + 1) args ++ r2 (h + 1 + argCount args)
  | .return_ e => hts ls h e ++ r1 (h + 1)
  | _ => []
/-- `Copy 0; v; CompareOp ==; PopJumpForwardIfTrue` at subject height `s` -/
def htsVals (ls : Sc) (s : Nat) : N → List Nat
  | .cons v vs => r2 s ++ hts ls (s + 1) v ++ r2 (s + 2) ++ r2 (s + 1) ++ htsVals ls s vs
  | _ => []
def htsCmpCase (ls : Sc) (s : Nat) : N → List Nat
  | .case_ vals _ => htsVals ls s vals
  | _ => []
def htsCmp (ls : Sc) (s : Nat) : N → List Nat
  | .cons hd t => htsCmpCase ls s hd ++ htsCmp ls s t
  | _ => []
def htsBody (ls : Sc) (s : Nat) : N → List Nat
  | .case_ _ body => hts ls s body ++ r2 (s + 1)
  | _ => []
def htsBodies (ls : Sc) (s : Nat) : N → List Nat
  | .cons hd t => htsBody ls s hd ++ htsBodies ls s t
  | _ => []
def htsDfltBody (ls : Sc) (s : Nat) : N → List Nat
  | .default_ body => hts ls s body
  | _ => []
def htsDflt (ls : Sc) (s : Nat) : N → List Nat
  | .cons hd t => if isDefault hd then htsDfltBody ls s hd else htsDflt ls s t
  | _ => r1 s
/-- call arguments: the first at height `s`, each further one on top of the previous values -/
def htsArgs (ls : Sc) (s : Nat) : N → List Nat
  | .cons a as => hts ls s a ++ htsArgs ls (s + 1) as
  | _ => []
end

/-- heights before every slot of a function body `Clo.compFnStmts ls stmts`: entered at 0;
    mirrors `compFnStmts` (the statements up to the first top-level `return`; the implicit
    `ReturnValue` of the last expression statement, or `Nil; ReturnValue`) -/
def htsFn (ls : Sc) : N → List Nat
  | .cons h t =>
    if isReturn h then hts ls 0 h
    else if isNilL t then
      preH 0 h ++ hts ls 0 h ++ (if leaves h then r1 1 else r1 0 ++ r1 1)
    else
      preH 0 h ++ hts ls 0 h ++ (if leaves h then r1 1 else []) ++ htsFn ls t
  | _ => r1 0 ++ r1 1

/-! ### the code objects of a program and their certificates -/

/-- the main code object -/
def mainCode (p : N) : Code := toC04 true (compClo p).main
/-- the code object of one function literal (a function of the main code or a nested literal) -/
def fnCode (d : FDecl) : Code := toC04 false (compDecl d).code

/-- the certificate of the main code: entered with an empty operand stack, finished with
    exactly its result -/
def mainCert (p : N) : Cert := mkCertO (compClo p).main (hts Sc.main 0 p) (some 1)
/-- the certificate of a function's code object: entered with an empty frame, never finished
    by falling off the end -/
def fnCert (d : FDecl) : Cert := mkCertO (compDecl d).code (htsFn d.sc d.body) none

/-- EVERY code object of the compiled program: the main code, then one per function literal at
    any depth, in compile order (the order of `(compClo p).funs`) -/
def codes (p : N) : List Code := mainCode p :: (funsOf p).map fnCode

/-- the same certificates laid over the slot structure of ANY code object (used on the real
    compiler's bytecode by the oracle) -/
def mainCertFor (c : Code) (p : N) : Cert := mkCertO c.slots.toList (hts Sc.main 0 p) (some 1)
def fnCertFor (c : Code) (d : FDecl) : Cert := mkCertO c.slots.toList (htsFn d.sc d.body) none

/-- the largest number of operands any slot of any code object of the program sees -/
def peak (p : N) : Nat :=
  ((funsOf p).map fun d => (htsFn d.sc d.body).foldl max 0).foldl max ((hts Sc.main 0 p).foldl max 0)

/-! ### operand nesting depth by recursion on the syntax -/

mutual
/-- an upper bound of how far above its entry height the code of a node takes the operand
    stack (`CloCertLemmas.hts_le_depth`); as `FunC.depth`, plus: a literal with `k` captures holds
    `k` cells when `LoadClosure` runs -/
def depth (ls : Sc) : N → Nat
  | .infix _ l r => max (depth ls l) (max (depth ls r + 1) 2)
  | .neg e | .not e => max (depth ls e) 1
  | .tern c a b | .if_ c a b => max (depth ls c) (max 1 (max (depth ls a) (depth ls b)))
  | .block s | .prog s => depth ls s
  | .func name ps b => (capt ls.ls (.func name ps b)).length
  | .expr e => if isNamed e then max (capt ls.ls e).length 2 else depth ls e
  | .cons h t => max (depth ls h + 2) (depth ls t)
  | .var _ e => max (depth ls e) 1
  | .assign _ _ e => max (depth ls e + 1) 2
  | .postfix _ _ => 2
  | .forcond c b => max (depth ls c) (max 1 (depth ls b))
  | .forever b => max 1 (depth ls b)
  | .for3 i c p b => max (depth ls i) (max (depth ls c) (max 1 (max (depth ls p) (depth ls b))))
  | .switch subj cases => max (depth ls subj) (max (depth ls cases + 1) 2)
  | .case_ vals body => max (depth ls vals) (depth ls body)
  | .default_ body => depth ls body
  | .call f args => max (depth ls f) (depthArgs ls args + 1)
  | .return_ e => max (depth ls e) 1
  | _ => 0
/-- arguments entered at `s`: the `i`-th sits `i` higher; the `Call` sees all of them -/
def depthArgs (ls : Sc) : N → Nat
  | .cons a as => max (depth ls a) (depthArgs ls as + 1)
  | _ => 0
end

/-- the nesting depth of a function body -/
def depthFn (ls : Sc) : N → Nat
  | .cons h t => max (depth ls h + 2) (depthFn ls t)
  | _ => 1

/-- the nesting depth of a whole program: its main code and every function body -/
def depthProg (p : N) : Nat := ((funsOf p).map fun d => depthFn d.sc d.body).foldl max (depth Sc.main p)

end CloC

/-- **the certificates of a program of the closure fragment**, computed by recursion on the
    syntax: one per code object of `compClo p`, in the order of `CloC.codes p` (the main code, then
    every function literal at any depth in compile order); each gives the operand-stack height
    before every instruction slot (`none` on operand slots) and the end-of-code entry (`some 1` for
    the main code, `none` — unreachable — for a function body) -/
def certClo (p : N) : List Cert := CloC.mainCert p :: (funsOf p).map CloC.fnCert

/-- the guard of `clo_compile_balanced`: the operand nesting of EVERY code object of the
    program fits the frame's height limit (`maxHeight`; deeper NESTING of expressions, call
    arguments or captures overflows regardless of loops) -/
def fitsClo (p : N) : Bool :=
  (CloC.hts Sc.main 0 p).all (· ≤ maxHeight) &&
    (funsOf p).all fun d => (CloC.htsFn d.sc d.body).all (· ≤ maxHeight)

end Risor.C04
