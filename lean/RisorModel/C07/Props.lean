import RisorModel.C07.Lemmas
/-!
C07 — property theorems.  "Runs on a reused VM are independent of earlier runs and their
contexts."

Everything is stated for ALL histories: lists of `Inv` of any length, every invocation
being Run, RunCode or Call, ending normally, with a runtime error at any depth, with a
recovered Go panic, with a frame-stack overflow or by cancellation of its own context,
with any placement of `cancel(ctx_i)` of earlier contexts before (`pre`) or during
(`during`) each later invocation.  `pairs h` lists, for every invocation of `h`, the
outcome on the reused VM (Impl model of vm/vm.go) and the outcome the Spec demands (the
same invocation on a fresh VM with the same globals).
-/
namespace Risor.C07

/-- **The property, in full**: in every history every invocation's outcome on the reused
    VM is the outcome the Spec demands.  It does NOT hold for the code as it is. -/
def C07_full : Prop := ∀ h : List Inv, ∀ p ∈ pairs h, p.1 = p.2

/-- the witness replayed on the real code: `RunCode(ctx₀)`, then `RunCode(ctx₁)` whose
    script (two frames deep, one pending operand) is running when `ctx₀` is cancelled -/
def witnessStale : List Inv :=
  [ { kind := .runCode, beh := .normal, depth := 0, pend := 0, v := 2, bump := 1, bg := false,
      imp := false, pre := [], during := [] },
    { kind := .runCode, beh := .normal, depth := 2, pend := 1, v := 3, bump := 1, bg := false,
      imp := false, pre := [], during := [0] } ]

/-- three `RunCode`s of a script that imports a module supplied as a global -/
def witnessImport : List Inv :=
  List.replicate 3 { kind := .runCode, beh := .normal, depth := 0, pend := 0, v := 2, bump := 1,
                     bg := false, imp := true, pre := [], during := [] }

/-- Counterexample 1 (stale context watcher): the second invocation returns success with
    the host callback's value instead of 2003. -/
theorem C07_counterexample_stale_watcher : ¬ C07_full := by
  intro h
  have := h witnessStale (.okHook, .ok 2003) (by decide)
  exact absurd this (by decide)

/-- Counterexample 2 (reset drops the modules supplied as globals): the second `RunCode`
    fails with "imports are disabled" where a fresh VM returns 2002. -/
theorem C07_counterexample_reset_drops_modules : ¬ C07_full := by
  intro h
  have := h witnessImport (.errImport, .ok 2002) (by decide)
  exact absurd this (by decide)

/-- what the witnesses look like in the model (outcome on the reused VM, Spec) -/
example : pairs witnessStale = [(.ok 1002, .ok 1002), (.okHook, .ok 2003)] := by decide
example : pairs witnessImport =
    [(.ok 1002, .ok 1002), (.errImport, .ok 2002), (.errImport, .ok 2002)] := by decide

/-- **Exact characterisation, one invocation.**  From every state that any history can
    leave behind (`Good`), the outcome of an invocation equals the Spec if and only if the
    invocation is not `harms`-ed, i.e. neither (a) imports a global module after a reset nor
    (b) has a watcher of an earlier context fire while it runs (unless it cancels its own
    context as well, in which case `context.Canceled` is the right answer anyway). -/
theorem C07_step_exact (s : St) (k : Nat) (inv : Inv) (g : Good s k) :
    (invoke s k inv).2 = specOutcome inv s.acc ↔ harms s k inv = false := by
  rw [step_outcome s k inv g]
  obtain ⟨n1, n2⟩ := spec_ne inv s.acc
  unfold harms
  cases importFails s k inv <;> cases (staleFires s k inv && !ownCancel inv) <;>
    simp [Ne.symm n1, Ne.symm n2]

/-- the same for a history continued from any `Good` state -/
theorem pairsFrom_exact (s : St) (k : Nat) (h : List Inv) (g : Good s k) :
    (∀ p ∈ pairsFrom s k h, p.1 = p.2) ↔ anyFrom harms s k h = false := by
  induction h generalizing s k with
  | nil => simp [pairsFrom, anyFrom]
  | cons inv rest ih =>
    have hrest := ih (invoke s k inv).1 (k + 1) (step_good s k inv g)
    have hstep := C07_step_exact s k inv g
    simp only [pairsFrom, anyFrom, List.mem_cons, forall_eq_or_imp, Bool.or_eq_false_iff]
    rw [hrest, hstep]

/-- **C07, exact form (histories of any length).**  All invocations of a history have the
    outcome the Spec demands if and only if the history is not `harmed`.  `harmed` is the
    decidable guard: it names exactly the histories on which the code as it is violates
    the property. -/
theorem C07_exact (h : List Inv) : (∀ p ∈ pairs h, p.1 = p.2) ↔ harmed h = false :=
  pairsFrom_exact (fresh 0) 0 h (good_fresh 0 0)

theorem anyFrom_false_of (f g : St → Nat → Inv → Bool)
    (hfg : ∀ s k inv, g s k inv = true → f s k inv = true) (s : St) (k : Nat) (h : List Inv)
    (hf : anyFrom f s k h = false) : anyFrom g s k h = false := by
  induction h generalizing s k with
  | nil => rfl
  | cons inv rest ih =>
    simp only [anyFrom, Bool.or_eq_false_iff] at hf ⊢
    refine ⟨?_, ih _ _ hf.2⟩
    cases hg : g s k inv with
    | false => rfl
    | true => rw [hfg s k inv hg] at hf; exact absurd hf.1 (by simp)

theorem harmed_of_guards (h : List Inv) (h1 : staleCancel h = false)
    (h2 : importAfterReset h = false) : harmed h = false := by
  unfold harmed staleCancel importAfterReset at *
  generalize fresh 0 = s at *
  generalize 0 = k at *
  induction h generalizing s k with
  | nil => rfl
  | cons inv rest ih =>
    simp only [anyFrom, Bool.or_eq_false_iff] at h1 h2 ⊢
    refine ⟨?_, ih _ _ h1.2 h2.2⟩
    unfold harms
    rw [h1.1, h2.1]; rfl

/-- **C07_partial (the property under the guards of the two findings).**  For every
    history of ANY length in which no watcher of a finished invocation's context fires
    while a later invocation executes (`staleCancel h = false`) and no module supplied as a
    global is imported after a `RunCode` reset (`importAfterReset h = false`): every
    invocation's outcome on the reused VM equals its outcome on a fresh VM with the same
    globals - whatever the kinds (Run/RunCode/Call) and endings (normal, error at any depth,
    recovered panic, frame overflow, own cancellation) of the earlier invocations, and
    wherever earlier contexts were cancelled BETWEEN invocations. -/
theorem C07_partial (h : List Inv) (h1 : staleCancel h = false)
    (h2 : importAfterReset h = false) : ∀ p ∈ pairs h, p.1 = p.2 :=
  (C07_exact h).2 (harmed_of_guards h h1 h2)

/-- the guards are decidable and true of interesting histories (non-vacuity): six
    invocations of all three kinds ending in every possible way, with contexts of finished
    invocations cancelled before later ones start, one of them a Background context -/
def sampleGood : List Inv :=
  [ { kind := .run, beh := .err, depth := 3, pend := 2, v := 5, bump := 1, bg := false, imp := true, pre := [], during := [] },
    { kind := .call, beh := .panic, depth := 1, pend := 0, v := 6, bump := 2, bg := false, imp := false, pre := [0], during := [] },
    { kind := .run, beh := .selfCancel, depth := 2, pend := 1, v := 7, bump := 0, bg := false, imp := true, pre := [], during := [0] },
    { kind := .runCode, beh := .overflow, depth := 0, pend := 1, v := 8, bump := 1, bg := true, imp := false, pre := [1, 2], during := [] },
    { kind := .call, beh := .selfCancel, depth := 4, pend := 0, v := 9, bump := 1, bg := false, imp := false, pre := [], during := [2, 1] },
    { kind := .runCode, beh := .normal, depth := 7, pend := 2, v := 10, bump := 3, bg := false, imp := false, pre := [4], during := [0, 3] } ]

example : staleCancel sampleGood = false ∧ importAfterReset sampleGood = false := by decide
example : (pairs sampleGood).map (·.1) =
    [.errRuntime, .errPanic, .errCanceled, .errOverflow, .errCanceled, .ok 8010] := by decide
example : harmed witnessStale = true ∧ harmed witnessImport = true := by decide

/-- **What a harmed invocation returns.**  In every history, an invocation whose outcome
    differs from the Spec returns either "success" carrying the host callback's value (the
    run was cut short: a missing/wrong value, or a swallowed error/panic) or the import
    error; nothing else can go wrong in the model. -/
theorem C07_harm_shape (s : St) (k : Nat) (h : List Inv) (g : Good s k) :
    ∀ p ∈ pairsFrom s k h, p.1 ≠ p.2 → p.1 = .okHook ∨ p.1 = .errImport := by
  induction h generalizing s k with
  | nil => intro p hp; simp [pairsFrom] at hp
  | cons inv rest ih =>
    intro p hp hne
    simp only [pairsFrom, List.mem_cons] at hp
    rcases hp with hp | hp
    · subst hp
      simp only at hne ⊢
      rw [step_outcome s k inv g] at hne ⊢
      split
      · exact Or.inr rfl
      · split
        · exact Or.inl rfl
        · rename_i h1 h2; simp [h1, h2] at hne
    · exact ih _ _ (step_good s k inv g) p hp hne

/-- **Between invocations** of every history the VM is not running and the frame pointer
    is back at the base frame (the deferred `resumeFrame` calls ran on every way out), and
    no invocation is ever refused with "vm is already running". -/
theorem C07_between_invocations (s : St) (k : Nat) (h : List Inv) (g : Good s k) :
    ∀ r ∈ runFrom s k h, r.1.running = false ∧ r.1.fp = 0 ∧ r.2 ≠ .errBusy := by
  induction h generalizing s k with
  | nil => intro r hr; simp [runFrom] at hr
  | cons inv rest ih =>
    intro r hr
    simp only [runFrom, List.mem_cons] at hr
    rcases hr with hr | hr
    · subst hr
      have g' := step_good s k inv g
      refine ⟨g'.quiet, g'.fp0, ?_⟩
      rw [step_outcome s k inv g]
      obtain ⟨_, _⟩ := spec_ne inv s.acc
      split
      · simp
      · split
        · simp
        · unfold specOutcome behOutcome
          split
          · simp
          · cases inv.beh <;> simp
    · exact ih _ _ (step_good s k inv g) r hr

theorem C07_between_invocations_run (h : List Inv) :
    ∀ r ∈ run h, r.1.running = false ∧ r.1.fp = 0 ∧ r.2 ≠ .errBusy :=
  C07_between_invocations (fresh 0) 0 h (good_fresh 0 0)

/-- **`start` clears what earlier contexts left.**  Cancelling contexts of finished
    invocations BETWEEN invocations (so that their watchers have fired before the next
    `start`) is harmless in every history: with no cancellation during a run and no import,
    every outcome equals the Spec although `halt` may be set when the invocation begins. -/
theorem C07_cancel_between_is_harmless (h : List Inv)
    (hd : ∀ inv ∈ h, inv.during = [] ∧ inv.imp = false) : ∀ p ∈ pairs h, p.1 = p.2 := by
  apply (C07_exact h).2
  unfold harmed
  generalize fresh 0 = s
  generalize 0 = k
  induction h generalizing s k with
  | nil => rfl
  | cons inv rest ih =>
    simp only [anyFrom, Bool.or_eq_false_iff]
    have hi := hd inv (by simp)
    refine ⟨?_, ih (fun x hx => hd x (by simp [hx])) _ _⟩
    unfold harms staleFires importFails
    rw [hi.1, hi.2]
    simp [earlier]

/-- `halt` really can be set when such an invocation begins (non-vacuity of the previous
    theorem): here context 0 is cancelled before invocation 1 starts -/
example : (preState ((run [witnessStale.head!]).head!.1) 1
    { witnessStale.head! with pre := [0] }).halt = true := by decide

/-- **The Spec is the Impl on a fresh VM**: for every invocation, index and value of the
    host global, running the invocation on a fresh VM (no events concerning other contexts)
    gives exactly `specOutcome`. -/
theorem C07_spec_is_fresh_vm (inv : Inv) (k acc : Nat) :
    freshOutcome inv k acc = specOutcome inv acc := by
  unfold freshOutcome
  have g := good_fresh acc k
  have h := (C07_step_exact (fresh acc) k { inv with pre := [], during := [] } g).2 (by
    unfold harms staleFires importFails bodyState prep enter start fresh setup reset earlier cancelAll
    cases inv.kind <;> cases inv.imp <;> simp)
  rw [h]
  rfl

/-- state in which a history leaves the VM -/
def finalFrom (s : St) (k : Nat) : List Inv → St
  | [] => s
  | inv :: rest => finalFrom (invoke s k inv).1 (k + 1) rest

theorem finalFrom_good (s : St) (k : Nat) (h : List Inv) (g : Good s k) :
    Good (finalFrom s k h) (k + h.length) := by
  induction h generalizing s k with
  | nil => exact g
  | cons inv rest ih =>
    have := ih _ _ (step_good s k inv g)
    simp only [finalFrom, List.length_cons]
    rw [show k + (rest.length + 1) = k + 1 + rest.length by omega]
    exact this

/-- **Independence of the past.**  Take ANY two histories `h₁`, `h₂` (different lengths,
    kinds, endings, cancellations) that leave the host global with the same value, and run
    the same invocation after each.  Unless the invocation is harmed in one of them, it
    returns the same outcome after both. -/
theorem C07_independent_of_history (h₁ h₂ : List Inv) (inv : Inv)
    (hacc : (finalFrom (fresh 0) 0 h₁).acc = (finalFrom (fresh 0) 0 h₂).acc)
    (n1 : harms (finalFrom (fresh 0) 0 h₁) h₁.length inv = false)
    (n2 : harms (finalFrom (fresh 0) 0 h₂) h₂.length inv = false) :
    (invoke (finalFrom (fresh 0) 0 h₁) h₁.length inv).2 =
    (invoke (finalFrom (fresh 0) 0 h₂) h₂.length inv).2 := by
  have g1 := finalFrom_good (fresh 0) 0 h₁ (good_fresh 0 0)
  have g2 := finalFrom_good (fresh 0) 0 h₂ (good_fresh 0 0)
  rw [Nat.zero_add] at g1 g2
  rw [(C07_step_exact _ _ inv g1).2 n1, (C07_step_exact _ _ inv g2).2 n2, hacc]

/-! ### Re-supplied code objects and the file-module cache -/

/-- forget which code object every invocation re-supplies -/
def freshCode (inv : Inv) : Inv := { inv with same := none }

/-- **Re-supplying a code object is invisible.**  For every state and invocation, running a
    `*compiler.Code` object the VM has seen before (`same := some j`) leaves exactly the state
    and outcome that a newly compiled, identical code object leaves: `resetForNewCode` forgets
    `loadedCode`, so no transition of the model reads `same`.  (The harness re-runs the very
    same Go object and compares outcome, sp, fp and the stack headroom with this model.) -/
theorem C07_same_code_irrelevant (s : St) (k : Nat) (inv : Inv) :
    invoke s k (freshCode inv) = invoke s k inv := rfl

/-- the same for whole histories of any length -/
theorem C07_same_code_irrelevant_history (s : St) (k : Nat) (h : List Inv) :
    runFrom s k (h.map freshCode) = runFrom s k h := by
  induction h generalizing s k with
  | nil => rfl
  | cons inv rest ih =>
    simp only [List.map_cons, runFrom, C07_same_code_irrelevant]
    rw [ih]

/-- **A run that ends inside a module's top-level code caches nothing.**  From every state a
    history can leave behind: if invocation `k` ends (runtime error, recovered panic, frame
    overflow, cancellation of its own context) while the top-level code of the imported file
    module is executing, the module is NOT in the VM's import cache afterwards, the outcome is
    the one the Spec demands, and the module cache has the size it had when the body started. -/
theorem C07_aborted_import_caches_nothing (s : St) (k : Nat) (inv : Inv) (g : Good s k)
    (hi : importFails s k inv = false) (hm : modEnds (bodyState s k inv) inv = true) :
    (invoke s k inv).1.fmod = false ∧ (invoke s k inv).2 = specOutcome inv s.acc ∧
    modCount (invoke s k inv).1 = modCount (bodyState s k inv) := by
  have hnot : ¬(inv.imp = true ∧ (bodyState s k inv).mods = false) := by
    intro h; unfold importFails at hi; simp [h.1, h.2] at hi
  have hcore : core (bodyState s k inv) k inv = modEnd (bodyState s k inv) k inv := by
    unfold core; simp only [hnot, hm, ↓reduceIte]
  have hf : (bodyState s k inv).fmod = false := by
    unfold modEnds modRuns at hm
    cases h : (bodyState s k inv).fmod <;> simp_all
  have hs : staleFires s k inv = false := by unfold staleFires; rw [hm]; simp
  refine ⟨?_, ?_, ?_⟩
  · rw [invoke_eq s k inv g, hcore]
    show (modEnd (bodyState s k inv) k inv).1.fmod = false
    unfold modEnd
    simp only
    cases ownCancel inv
    · exact hf
    · simp only [↓reduceIte]
      rw [(cancel_sameCore' (bodyState s k inv) k).1]; exact hf
  · rw [step_outcome s k inv g, hi, hs]; rfl
  · rw [invoke_eq s k inv g, hcore]
    unfold modCount modEnd
    simp only
    cases ownCancel inv
    · rfl
    · simp only [↓reduceIte]
      rw [(cancel_sameCore' (bodyState s k inv) k).1, (cancel_sameCore' (bodyState s k inv) k).2]

/-- **The module cache never decides an outcome.**  Whether the file module is cached
    (`fmod`) when an invocation starts changes where a run can end, not what it returns: from
    every state a history can leave behind, flipping the cache gives the same outcome unless
    the invocation is harmed (stale watcher / import of a global module after a reset) in one
    of the two situations. -/
theorem C07_module_cache_irrelevant (s : St) (k : Nat) (inv : Inv) (b : Bool) (g : Good s k)
    (n1 : harms s k inv = false) (n2 : harms { s with fmod := b } k inv = false) :
    (invoke { s with fmod := b } k inv).2 = (invoke s k inv).2 := by
  have g' : Good { s with fmod := b } k := ⟨g.quiet, g.fp0, g.early⟩
  rw [(C07_step_exact _ _ inv g).2 n1, (C07_step_exact _ _ inv g').2 n2]

/-- non-vacuity: seven invocations on one VM that import the file module; three of them end
    inside the module's top-level code (error, own cancellation, panic), later ones import it
    again through Call / Run / a re-supplied code object; no guard is violated, every
    outcome is the Spec's, and the module is cached only by the runs that completed it -/
def sampleModule : List Inv :=
  [ { kind := .call, beh := .err, depth := 1, pend := 0, v := 5, bump := 1, bg := false, imp := false, pre := [], during := [], fimp := true, mfail := true },
    { kind := .call, beh := .selfCancel, depth := 0, pend := 0, v := 6, bump := 1, bg := false, imp := false, pre := [], during := [], fimp := true, mfail := true },
    { kind := .run, beh := .panic, depth := 2, pend := 1, v := 7, bump := 1, bg := false, imp := false, pre := [1], during := [], fimp := true, mfail := true },
    { kind := .call, beh := .normal, depth := 0, pend := 0, v := 8, bump := 1, bg := false, imp := false, pre := [], during := [], fimp := true, mfail := true },
    { kind := .run, beh := .err, depth := 0, pend := 2, v := 9, bump := 1, bg := false, imp := false, pre := [], during := [], fimp := true, mfail := true },
    { kind := .runCode, beh := .normal, depth := 0, pend := 0, v := 10, bump := 0, bg := true, imp := false, pre := [], during := [], fimp := true },
    { kind := .runCode, beh := .overflow, depth := 0, pend := 0, v := 10, bump := 0, bg := true, imp := false, pre := [], during := [], fimp := true, mfail := true, same := some 5 } ]

example : harmed sampleModule = false := by decide
example : (pairs sampleModule).map (·.1) =
    [.errRuntime, .errCanceled, .errPanic, .ok 1008, .errRuntime, .ok 2010, .errOverflow] := by decide
example : (run sampleModule).map (·.1.fmod) = [false, false, false, true, true, true, false] := by decide
example : modEnds (bodyState (fresh 0) 0 sampleModule.head!) sampleModule.head! = true := by decide

/-! ### Depth -/

theorem frameStep_leafSig (halt own : Bool) (b : Beh) (v acc : Nat) :
    frameStep halt own (leafSig halt own b v acc) = leafSig halt own b v acc := by
  cases halt <;> cases own <;> cases b <;> rfl

theorem unwind_leafSig (halt own : Bool) (b : Beh) (v acc : Nat) (d : Nat) :
    unwind halt own d (leafSig halt own b v acc) = leafSig halt own b v acc := by
  induction d with
  | zero => rfl
  | succ n ih => rw [unwind, frameStep_leafSig, ih]

/-- **The depth at which a run ends does not matter.**  For every number `d` of enclosing
    script frames, carrying the leaf's signal (value, error, Go panic, or the cut-short
    "success") up through `d` frames that each poll `halt` gives exactly the outcome the
    run-state model uses (`leafOutcome`): an error raised at depth `d` surfaces unchanged,
    and a run cut short by a stale watcher is cut short at EVERY level and returns
    "success" with the host callback's value. -/
theorem C07_depth_irrelevant (s : St) (k : Nat) (inv : Inv) (d : Nat) :
    sigOutcome (unwind s.halt (s.cancelled.contains k) d
      (leafSig s.halt (s.cancelled.contains k) inv.beh inv.v s.acc)) = leafOutcome s k inv := by
  rw [unwind_leafSig]
  unfold leafOutcome leafSig behOutcome
  cases s.halt <;> cases s.cancelled.contains k <;> cases inv.beh <;> rfl

end Risor.C07
