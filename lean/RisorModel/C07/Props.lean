import RisorModel.C07.Lemmas
/-!
C07 — property theorems.  "Runs on a reused VM are independent of earlier runs and their
contexts."

Everything is stated for ALL histories: lists of `Inv` of any length, every invocation
being Run, RunCode or Call, ending normally, with a runtime error at any depth, with a
recovered Go panic, with a frame-stack overflow or by cancellation of its own context,
with any placement of `cancel(ctx_i)` of any context before (`pre`) or of other contexts
during (`during`) each invocation, with context objects SHARED by any number of invocations
(`ctx`; possibly cancelled before the invocation that is handed them starts) and code
objects re-supplied after the host compiled further snippets into them (`same`, `grows`).  `pairs h` lists, for every invocation of `h`, the
outcome on the reused VM (Impl model of vm/vm.go) and the outcome the Spec demands (the
same invocation on a fresh VM with the same globals).
-/
namespace Risor.C07

/-- **The property, in full**: in every history every invocation's outcome on the reused
    VM is the outcome the Spec demands.  It does NOT hold for the code as it is. -/
def C07_full : Prop := ∀ h : List Inv, ∀ p ∈ pairs h, p.1 = p.2

/-- the witness replayed on the real code: `RunCode(ctx₀)`, then `RunCode(ctx₁)` whose
    script (two frames deep, one pending operand) is running when `ctx₀` is cancelled -/
def witnessStale : List Inv :=
  [ { kind := .runCode, beh := .normal, depth := 0, pend := 0, v := 2, bump := 1, bg := false,
      imp := false, pre := [], during := [] },
    { kind := .runCode, beh := .normal, depth := 2, pend := 1, v := 3, bump := 1, bg := false,
      imp := false, pre := [], during := [0] } ]

/-- three `RunCode`s of a script that imports a module supplied as a global -/
def witnessImport : List Inv :=
  List.replicate 3 { kind := .runCode, beh := .normal, depth := 0, pend := 0, v := 2, bump := 1,
                     bg := false, imp := true, pre := [], during := [] }

/-- Counterexample 1 (stale context watcher): the second invocation returns success with
    the host callback's value instead of 2003. -/
theorem C07_counterexample_stale_watcher : ¬ C07_full := by
  intro h
  have := h witnessStale (.okHook, .ok 2003) (by decide)
  exact absurd this (by decide)

/-- Counterexample 2 (reset drops the modules supplied as globals): the second `RunCode`
    fails with "imports are disabled" where a fresh VM returns 2002. -/
theorem C07_counterexample_reset_drops_modules : ¬ C07_full := by
  intro h
  have := h witnessImport (.errImport, .ok 2002) (by decide)
  exact absurd this (by decide)

/-- what the witnesses look like in the model (outcome on the reused VM, Spec) -/
example : pairs witnessStale = [(.ok 1002, .ok 1002), (.okHook, .ok 2003)] := by decide
example : pairs witnessImport =
    [(.ok 1002, .ok 1002), (.errImport, .ok 2002), (.errImport, .ok 2002)] := by decide

/-- **Exact characterisation, one invocation.**  From every state that any history can
    leave behind (`Good`), the outcome of an invocation equals the Spec if and only if the
    invocation is not `harms`-ed, i.e. neither (a) imports a global module after a reset nor
    (b) has a watcher of an earlier context fire while it runs (unless it cancels its own
    context as well, in which case `context.Canceled` is the right answer anyway). -/
theorem C07_step_exact (s : St) (k : Nat) (inv : Inv) (g : Good s k) :
    (invoke s k inv).2 = specAt s k inv ↔ harms s k inv = false := by
  rw [step_outcome s k inv g]
  obtain ⟨n1, n2⟩ := spec_ne inv s.acc (curGen s k inv) (dead s k inv)
  have n3 := beh_ne_canceled inv.beh inv.v (s.acc + inv.bump) (curGen s k inv)
  unfold harms
  cases hc : cut s k inv with
  | true =>
    have hd : dead s k inv = true := by unfold cut at hc; simp at hc; exact hc.1
    have hi : importFails s k inv = false := by unfold importFails; rw [hc]; rfl
    have hs : staleFires s k inv = false := by unfold staleFires; rw [hc]; rfl
    have hl : lostFires s k inv = false := by
      unfold lostFires; unfold cut at hc; simp at hc; simp [hc.2]
    rw [hi, hs, hl]
    unfold specAt specOutcome
    rw [hd]; simp
  | false =>
    simp only [Bool.false_eq_true, ↓reduceIte]
    cases hi : importFails s k inv with
    | true => simp only [↓reduceIte, Bool.true_or]; unfold specAt; simp [Ne.symm n1]
    | false =>
      simp only [Bool.false_eq_true, ↓reduceIte, Bool.false_or]
      cases hl : lostFires s k inv with
      | true =>
        have hd : dead s k inv = true := by unfold lostFires at hl; simp at hl; exact hl.1
        have hsp : specAt s k inv = .errCanceled := by unfold specAt specOutcome; rw [hd]; simp
        rw [hsp]
        cases (staleFires s k inv || lostImport s k inv) <;> simp [n3]
      | false =>
        simp only [Bool.false_eq_true, ↓reduceIte]
        unfold specAt at *
        cases (staleFires s k inv && !ownCancel inv) <;> simp [Ne.symm n2]

/-- the same for a history continued from any `Good` state -/
theorem pairsFrom_exact (s : St) (k : Nat) (h : List Inv) (g : Good s k) :
    (∀ p ∈ pairsFrom s k h, p.1 = p.2) ↔ anyFrom harms s k h = false := by
  induction h generalizing s k with
  | nil => simp [pairsFrom, anyFrom]
  | cons inv rest ih =>
    have hrest := ih (invoke s k inv).1 (k + 1) (step_good s k inv g)
    have hstep := C07_step_exact s k inv g
    simp only [pairsFrom, anyFrom, List.mem_cons, forall_eq_or_imp, Bool.or_eq_false_iff]
    rw [hrest, hstep]

/-- **C07, exact form (histories of any length).**  All invocations of a history have the
    outcome the Spec demands if and only if the history is not `harmed`.  `harmed` is the
    decidable guard: it names exactly the histories on which the code as it is violates
    the property. -/
theorem C07_exact (h : List Inv) : (∀ p ∈ pairs h, p.1 = p.2) ↔ harmed h = false :=
  pairsFrom_exact (fresh 0) 0 h (good_fresh 0 0)

theorem anyFrom_false_of (f g : St → Nat → Inv → Bool)
    (hfg : ∀ s k inv, g s k inv = true → f s k inv = true) (s : St) (k : Nat) (h : List Inv)
    (hf : anyFrom f s k h = false) : anyFrom g s k h = false := by
  induction h generalizing s k with
  | nil => rfl
  | cons inv rest ih =>
    simp only [anyFrom, Bool.or_eq_false_iff] at hf ⊢
    refine ⟨?_, ih _ _ hf.2⟩
    cases hg : g s k inv with
    | false => rfl
    | true => rw [hfg s k inv hg] at hf; exact absurd hf.1 (by simp)

theorem harmed_of_guards (h : List Inv) (h1 : staleCancel h = false)
    (h2 : importAfterReset h = false) (h3 : lostCancel h = false) : harmed h = false := by
  unfold harmed staleCancel importAfterReset lostCancel at *
  generalize fresh 0 = s at *
  generalize 0 = k at *
  induction h generalizing s k with
  | nil => rfl
  | cons inv rest ih =>
    simp only [anyFrom, Bool.or_eq_false_iff] at h1 h2 h3 ⊢
    refine ⟨?_, ih _ _ h1.2 h2.2 h3.2⟩
    unfold harms
    rw [h1.1, h2.1, h3.1]; rfl

/-- **C07_partial (the property under the guards of the two findings).**  For every
    history of ANY length in which no watcher of a finished invocation's context fires
    while a later invocation executes (`staleCancel h = false`) and no module supplied as a
    global is imported after a `RunCode` reset (`importAfterReset h = false`): every
    invocation's outcome on the reused VM equals its outcome on a fresh VM with the same
    globals - whatever the kinds (Run/RunCode/Call) and endings (normal, error at any depth,
    recovered panic, frame overflow, own cancellation) of the earlier invocations, and
    wherever earlier contexts were cancelled BETWEEN invocations. -/
theorem C07_partial (h : List Inv) (h1 : staleCancel h = false)
    (h2 : importAfterReset h = false) (h3 : lostCancel h = false) : ∀ p ∈ pairs h, p.1 = p.2 :=
  (C07_exact h).2 (harmed_of_guards h h1 h2 h3)

/-- the guards are decidable and true of interesting histories (non-vacuity): six
    invocations of all three kinds ending in every possible way, with contexts of finished
    invocations cancelled before later ones start, one of them a Background context -/
def sampleGood : List Inv :=
  [ { kind := .run, beh := .err, depth := 3, pend := 2, v := 5, bump := 1, bg := false, imp := true, pre := [], during := [] },
    { kind := .call, beh := .panic, depth := 1, pend := 0, v := 6, bump := 2, bg := false, imp := false, pre := [0], during := [] },
    { kind := .run, beh := .selfCancel, depth := 2, pend := 1, v := 7, bump := 0, bg := false, imp := true, pre := [], during := [0] },
    { kind := .runCode, beh := .overflow, depth := 0, pend := 1, v := 8, bump := 1, bg := true, imp := false, pre := [1, 2], during := [] },
    { kind := .call, beh := .selfCancel, depth := 4, pend := 0, v := 9, bump := 1, bg := false, imp := false, pre := [], during := [2, 1] },
    { kind := .runCode, beh := .normal, depth := 7, pend := 2, v := 10, bump := 3, bg := false, imp := false, pre := [4], during := [0, 3] } ]

example : staleCancel sampleGood = false ∧ importAfterReset sampleGood = false := by decide
example : (pairs sampleGood).map (·.1) =
    [.errRuntime, .errPanic, .errCanceled, .errOverflow, .errCanceled, .ok 8010] := by decide
example : harmed witnessStale = true ∧ harmed witnessImport = true := by decide

/-- **What a harmed invocation returns.**  In every history, an invocation whose outcome
    differs from the Spec returns either "success" carrying the host callback's value (the
    run was cut short: a missing/wrong value, or a swallowed error/panic), or the import
    error, or - when the Spec demands `context.Canceled` because the context was cancelled
    before the start and the reset wiped the watcher's store - whatever the script does when it
    is left to run; nothing else can go wrong in the model. -/
theorem C07_harm_shape (s : St) (k : Nat) (h : List Inv) (g : Good s k) :
    ∀ p ∈ pairsFrom s k h, p.1 ≠ p.2 →
      p.1 = .okHook ∨ p.1 = .errImport ∨ (p.2 = .errCanceled ∧ p.1 ≠ .errCanceled) := by
  induction h generalizing s k with
  | nil => intro p hp; simp [pairsFrom] at hp
  | cons inv rest ih =>
    intro p hp hne
    simp only [pairsFrom, List.mem_cons] at hp
    rcases hp with hp | hp
    · subst hp
      simp only at hne ⊢
      rw [step_outcome s k inv g] at hne ⊢
      cases hc : cut s k inv with
      | true =>
        have hd : dead s k inv = true := by unfold cut at hc; simp at hc; exact hc.1
        rw [hc] at hne
        exact absurd (by unfold specAt specOutcome; rw [hd]; simp) hne
      | false =>
        rw [hc] at hne
        simp only [Bool.false_eq_true, ↓reduceIte] at hne ⊢
        cases hi : importFails s k inv with
        | true => simp
        | false =>
          simp only [Bool.false_eq_true, ↓reduceIte] at hne ⊢
          rw [hi] at hne
          simp only [Bool.false_eq_true, ↓reduceIte] at hne
          cases hl : lostFires s k inv with
          | true =>
            have hd : dead s k inv = true := by unfold lostFires at hl; simp at hl; exact hl.1
            have hsp : specAt s k inv = .errCanceled := by
              unfold specAt specOutcome; rw [hd]; simp
            rw [hl] at hne
            simp only [↓reduceIte] at hne ⊢
            cases hs : (staleFires s k inv || lostImport s k inv) with
            | true => rw [hs, hsp] at hne; simp at hne
            | false =>
              simp only [Bool.false_eq_true, ↓reduceIte]
              exact Or.inr (Or.inr ⟨hsp, beh_ne_canceled _ _ _ _⟩)
          | false =>
            rw [hl] at hne
            simp only [Bool.false_eq_true, ↓reduceIte] at hne ⊢
            cases hs : (staleFires s k inv && !ownCancel inv) with
            | true => simp
            | false => rw [hs] at hne; simp at hne
    · exact ih _ _ (step_good s k inv g) p hp hne

/-- **Between invocations** of every history the VM is not running and the frame pointer
    is back at the base frame (the deferred `resumeFrame` calls ran on every way out), and
    no invocation is ever refused with "vm is already running". -/
theorem C07_between_invocations (s : St) (k : Nat) (h : List Inv) (g : Good s k) :
    ∀ r ∈ runFrom s k h, r.1.running = false ∧ r.1.fp = 0 ∧ r.2 ≠ .errBusy := by
  induction h generalizing s k with
  | nil => intro r hr; simp [runFrom] at hr
  | cons inv rest ih =>
    intro r hr
    simp only [runFrom, List.mem_cons] at hr
    rcases hr with hr | hr
    · subst hr
      have g' := step_good s k inv g
      refine ⟨g'.quiet, g'.fp0, ?_⟩
      rw [step_outcome s k inv g]
      have hb : ∀ a g, behOutcome inv.beh inv.v a g ≠ .errBusy := by
        intro a g; unfold behOutcome; cases inv.beh <;> simp
      split
      · simp
      · split
        · simp
        · split
          · split
            · simp
            · exact hb _ _
          · split
            · simp
            · unfold specAt specOutcome
              split
              · simp
              · exact hb _ _
    · exact ih _ _ (step_good s k inv g) r hr

theorem C07_between_invocations_run (h : List Inv) :
    ∀ r ∈ run h, r.1.running = false ∧ r.1.fp = 0 ∧ r.2 ≠ .errBusy :=
  C07_between_invocations (fresh 0) 0 h (good_fresh 0 0)

/-- **`start` clears what earlier contexts left.**  Cancelling contexts BETWEEN invocations
    (so that their watchers have fired before the next `start`) is harmless in every history:
    with no cancellation during a run, no import and no reset that wipes the cancellation of
    a dead context (`sched ≠ lost`), every outcome equals the Spec although `halt` may be set
    when the invocation begins - and an invocation whose OWN context is among the cancelled
    ones returns `context.Canceled`, as the Spec demands. -/
theorem C07_cancel_between_is_harmless (h : List Inv)
    (hd : ∀ inv ∈ h, inv.during = [] ∧ inv.imp = false ∧ inv.sched ≠ .lost) :
    ∀ p ∈ pairs h, p.1 = p.2 := by
  apply (C07_exact h).2
  unfold harmed
  generalize fresh 0 = s
  generalize 0 = k
  induction h generalizing s k with
  | nil => rfl
  | cons inv rest ih =>
    simp only [anyFrom, Bool.or_eq_false_iff]
    have hi := hd inv (by simp)
    refine ⟨?_, ih (fun x hx => hd x (by simp [hx])) _ _⟩
    have hl : lostFires s k inv = false := by
      unfold lostFires loses
      cases hs : inv.sched <;> simp_all
    unfold harms staleFires importFails
    rw [hl, hi.1, hi.2.1]
    simp [others]

/-- `halt` really can be set when such an invocation begins (non-vacuity of the previous
    theorem): here context 0 is cancelled before invocation 1 starts -/
example : (preState ((run [witnessStale.head!]).head!.1) 1
    { witnessStale.head! with pre := [0] }).halt = true := by decide

/-- **The Spec is the Impl on a fresh VM**: for every invocation, index, value of the host
    global, contents of the code object (`g` growth snippets) and state of the context
    (`d`: already cancelled), running the invocation on a fresh VM (no events concerning other
    contexts) gives exactly `specOutcome`. -/
theorem C07_spec_is_fresh_vm (inv : Inv) (k acc g : Nat) (d : Bool) :
    freshOutcome inv k acc g d =
      specOutcome inv acc (if inv.kind = .runCode then g else 0) (!inv.bg && d) := by
  unfold freshOutcome
  generalize hs : freshWorld inv k acc g d = s
  have gd : Good s k := by subst hs; exact ⟨rfl, rfl, fun _ => rfl⟩
  have hsc : s.startCount = 0 := by subst hs; rfl
  have hacc : s.acc = acc := by subst hs; rfl
  have hev : events s { inv with pre := [], during := [], grows := [] } = s := by
    subst hs; rfl
  have hh := (C07_step_exact s k { inv with pre := [], during := [], grows := [] } gd).2 (by
    have hl : lostFires s k { inv with pre := [], during := [], grows := [] } = false := by
      unfold lostFires loses; simp [hsc]
    unfold harms
    rw [hl]
    have hm : (bodyState s k { inv with pre := [], during := [], grows := [] }).mods = true := by
      subst hs
      unfold bodyState prep preState enter start setup reset
      rw [hev]
      unfold freshWorld fresh
      cases inv.kind <;> simp
    unfold staleFires importFails
    rw [hm]
    simp [others])
  rw [hh]
  unfold specAt curGen dead preState genOf
  rw [hev, hacc]
  subst hs
  unfold freshWorld
  simp only [ctxOf, codeOf]
  cases d <;> cases hb : inv.bg <;> cases hk : inv.kind <;> cases hbe : inv.beh <;>
    simp [specOutcome, ownCancel, hb, hbe]

/-- state in which a history leaves the VM -/
def finalFrom (s : St) (k : Nat) : List Inv → St
  | [] => s
  | inv :: rest => finalFrom (invoke s k inv).1 (k + 1) rest

theorem finalFrom_good (s : St) (k : Nat) (h : List Inv) (g : Good s k) :
    Good (finalFrom s k h) (k + h.length) := by
  induction h generalizing s k with
  | nil => exact g
  | cons inv rest ih =>
    have := ih _ _ (step_good s k inv g)
    simp only [finalFrom, List.length_cons]
    rw [show k + (rest.length + 1) = k + 1 + rest.length by omega]
    exact this

/-- **Independence of the past.**  Take ANY two histories `h₁`, `h₂` (different lengths,
    kinds, endings, cancellations) that leave the host global with the same value, the
    invocation's context in the same state (cancelled or not) and the code object it is handed
    with the same contents, and run the same invocation after each.  Unless the invocation is harmed in one of them, it
    returns the same outcome after both. -/
theorem C07_independent_of_history (h₁ h₂ : List Inv) (inv : Inv)
    (hacc : (finalFrom (fresh 0) 0 h₁).acc = (finalFrom (fresh 0) 0 h₂).acc)
    (hdead : dead (finalFrom (fresh 0) 0 h₁) h₁.length inv = dead (finalFrom (fresh 0) 0 h₂) h₂.length inv)
    (hgen : curGen (finalFrom (fresh 0) 0 h₁) h₁.length inv = curGen (finalFrom (fresh 0) 0 h₂) h₂.length inv)
    (n1 : harms (finalFrom (fresh 0) 0 h₁) h₁.length inv = false)
    (n2 : harms (finalFrom (fresh 0) 0 h₂) h₂.length inv = false) :
    (invoke (finalFrom (fresh 0) 0 h₁) h₁.length inv).2 =
    (invoke (finalFrom (fresh 0) 0 h₂) h₂.length inv).2 := by
  have g1 := finalFrom_good (fresh 0) 0 h₁ (good_fresh 0 0)
  have g2 := finalFrom_good (fresh 0) 0 h₂ (good_fresh 0 0)
  rw [Nat.zero_add] at g1 g2
  rw [(C07_step_exact _ _ inv g1).2 n1, (C07_step_exact _ _ inv g2).2 n2]
  unfold specAt
  rw [hacc, hdead, hgen]

/-! ### Re-supplied code objects and the file-module cache -/

/-- **Re-supplying a code object is invisible.**  From every state a history can leave
    behind: running a `*compiler.Code` object the VM has seen before (`same := some j`) gives
    exactly the outcome, and leaves exactly the state (up to which objects `vm.loadedCode`
    names: `forget`), that a newly compiled code object with the same CURRENT contents gives
    (`freshCode inv`; `curGen` = how many snippets the object contains beyond its first):
    `resetForNewCode` forgets `loadedCode`, so the look-up of `RunCode` never finds an older
    wrapper and no other transition reads `same`.  (The harness re-runs the very same Go
    object, grown or not, and compares outcome, sp, fp and the stack headroom with this
    model.) -/
theorem C07_same_code_irrelevant (s : St) (k : Nat) (inv : Inv) (g : Good s k)
    (hg : curGen s k (freshCode inv) = curGen s k inv) :
    (invoke s k (freshCode inv)).2 = (invoke s k inv).2 ∧
    forget (invoke s k (freshCode inv)).1 = forget (invoke s k inv).1 := by
  have := invoke_freshCode s s.loaded k inv g g hg
  exact ⟨this.2, this.1⟩

/-- a code object that never grew has the contents of a newly compiled one -/
theorem curGen_freshCode_of_no_growth (s : St) (k : Nat) (inv : Inv) (h0 : s.grown = [])
    (hn : inv.grows = []) : curGen s k (freshCode inv) = curGen s k inv := by
  have he : (events s inv).grown = [] := by rw [(events_facts s inv).2.2.2.2.2, h0, hn]; rfl
  unfold curGen genOf preState
  show (if inv.kind = .runCode then (events s inv).grown.count _ else 0) = _
  rw [he]; simp

/-- the same for whole histories of any length in which no code object grows: outcomes and
    states (up to the names in the wrapper cache) are those of the history in which every
    `RunCode` compiles its code anew -/
theorem C07_same_code_irrelevant_history (s : St) (l : List (Nat × Nat)) (k : Nat) (h : List Inv)
    (g : Good s k) (g' : Good { s with loaded := l } k) (h0 : s.grown = [])
    (hn : ∀ inv ∈ h, inv.grows = []) :
    (runFrom { s with loaded := l } k (h.map freshCode)).map (fun r => (forget r.1, r.2)) =
    (runFrom s k h).map (fun r => (forget r.1, r.2)) := by
  induction h generalizing s l k with
  | nil => rfl
  | cons inv rest ih =>
    have hi := hn inv (by simp)
    have hstep := invoke_freshCode s l k inv g g' (curGen_freshCode_of_no_growth s k inv h0 hi)
    have hg1 : (invoke s k inv).1.grown = [] := by rw [invoke_grown s k inv g, hi, h0]; rfl
    have e := eq_of_forget hstep.1.symm
    have g1 := step_good s k inv g
    have g1' := step_good _ k (freshCode inv) g'
    rw [e] at g1'
    have := ih (invoke s k inv).1 _ (k + 1) g1 g1' hg1 (fun x hx => hn x (by simp [hx]))
    simp only [List.map_cons, runFrom]
    rw [hstep.1, hstep.2]
    rw [e]
    rw [this]

/-- non-vacuity and necessity of the hypothesis: once the object has grown, re-supplying it
    is NOT the same as compiling the first snippet anew - the grown object runs its current
    contents (1 002 003 = 3 + 1000·2 + 1 000 000·1) -/
example : (pairs [ { kind := .runCode, beh := .normal, depth := 0, pend := 0, v := 2, bump := 1, bg := false, imp := false, pre := [], during := [] },
                   { kind := .runCode, beh := .normal, depth := 0, pend := 0, v := 3, bump := 1, bg := false, imp := false, pre := [], during := [], same := some 0, grows := [0] } ]).map (·.1)
    = [.ok 1002, .ok 1002003] := by decide

/-- **A run that ends inside a module's top-level code caches nothing.**  From every state a
    history can leave behind: if invocation `k` ends (runtime error, recovered panic, frame
    overflow, cancellation of its own context) while the top-level code of the imported file
    module is executing (and its context was live when it started), the module is NOT in the
    VM's import cache afterwards, the outcome is
    the one the Spec demands, and the module cache has the size it had when the body started. -/
theorem C07_aborted_import_caches_nothing (s : St) (k : Nat) (inv : Inv) (g : Good s k)
    (hd : dead s k inv = false)
    (hi : importFails s k inv = false) (hm : modEnds (bodyState s k inv) inv = true) :
    (invoke s k inv).1.fmod = false ∧ (invoke s k inv).2 = specAt s k inv ∧
    modCount (invoke s k inv).1 = modCount (bodyState s k inv) := by
  have hc : cut s k inv = false := by unfold cut; rw [hd]; rfl
  have he : eff s k inv = inv := by unfold eff; simp [hd]
  have hl : lostFires s k inv = false := by unfold lostFires; rw [hd]; rfl
  have hnot : ¬(inv.imp = true ∧ (bodyState s k inv).mods = false) := by
    intro h; unfold importFails at hi; simp [h.1, h.2, hc] at hi
  have hgone : (bodyState s k inv).gone = false := by rw [dead_eq s k inv g, hd]
  have hcore : core (bodyState s k inv) (ctxOf k inv) (eff s k inv)
      = modEnd (bodyState s k inv) (ctxOf k inv) inv := by
    rw [he]; unfold core; simp only [hnot, hm, hgone, Bool.false_eq_true, false_and, ↓reduceIte]
  have hf : (bodyState s k inv).fmod = false := by
    unfold modEnds modRuns at hm
    cases h : (bodyState s k inv).fmod <;> simp_all
  have hs : staleFires s k inv = false := by unfold staleFires; rw [he, hm]; simp
  refine ⟨?_, ?_, ?_⟩
  · rw [invoke_body s k inv g hc, hcore]
    show (modEnd (bodyState s k inv) (ctxOf k inv) inv).1.fmod = false
    unfold modEnd
    simp only
    cases ownCancel inv
    · exact hf
    · simp only [↓reduceIte]
      rw [(cancel_sameCore' (bodyState s k inv) (ctxOf k inv)).1]; exact hf
  · rw [step_outcome s k inv g, hc, hi, hs, hl]; rfl
  · rw [invoke_body s k inv g hc, hcore]
    unfold modCount modEnd
    simp only
    cases ownCancel inv
    · rfl
    · simp only [↓reduceIte]
      rw [(cancel_sameCore' (bodyState s k inv) (ctxOf k inv)).1,
        (cancel_sameCore' (bodyState s k inv) (ctxOf k inv)).2]

/-- **The module cache never decides an outcome.**  Whether the file module is cached
    (`fmod`) when an invocation starts changes where a run can end, not what it returns: from
    every state a history can leave behind, flipping the cache gives the same outcome unless
    the invocation is harmed (stale watcher / import of a global module after a reset) in one
    of the two situations. -/
theorem C07_module_cache_irrelevant (s : St) (k : Nat) (inv : Inv) (b : Bool) (g : Good s k)
    (n1 : harms s k inv = false) (n2 : harms { s with fmod := b } k inv = false) :
    (invoke { s with fmod := b } k inv).2 = (invoke s k inv).2 := by
  have g' : Good { s with fmod := b } k := ⟨g.quiet, g.fp0, g.cold⟩
  rw [(C07_step_exact _ _ inv g).2 n1, (C07_step_exact _ _ inv g').2 n2]
  have he : events { s with fmod := b } inv = { events s inv with fmod := b } := by
    unfold events
    exact cancelAll_fmod { s with grown := inv.grows ++ s.grown } inv.pre b
  unfold specAt curGen dead preState genOf
  rw [he]

/-- non-vacuity: seven invocations on one VM that import the file module; three of them end
    inside the module's top-level code (error, own cancellation, panic), later ones import it
    again through Call / Run / a re-supplied code object; no guard is violated, every
    outcome is the Spec's, and the module is cached only by the runs that completed it -/
def sampleModule : List Inv :=
  [ { kind := .call, beh := .err, depth := 1, pend := 0, v := 5, bump := 1, bg := false, imp := false, pre := [], during := [], fimp := true, mfail := true },
    { kind := .call, beh := .selfCancel, depth := 0, pend := 0, v := 6, bump := 1, bg := false, imp := false, pre := [], during := [], fimp := true, mfail := true },
    { kind := .run, beh := .panic, depth := 2, pend := 1, v := 7, bump := 1, bg := false, imp := false, pre := [1], during := [], fimp := true, mfail := true },
    { kind := .call, beh := .normal, depth := 0, pend := 0, v := 8, bump := 1, bg := false, imp := false, pre := [], during := [], fimp := true, mfail := true },
    { kind := .run, beh := .err, depth := 0, pend := 2, v := 9, bump := 1, bg := false, imp := false, pre := [], during := [], fimp := true, mfail := true },
    { kind := .runCode, beh := .normal, depth := 0, pend := 0, v := 10, bump := 0, bg := true, imp := false, pre := [], during := [], fimp := true },
    { kind := .runCode, beh := .overflow, depth := 0, pend := 0, v := 10, bump := 0, bg := true, imp := false, pre := [], during := [], fimp := true, mfail := true, same := some 5 } ]

example : harmed sampleModule = false := by decide
example : (pairs sampleModule).map (·.1) =
    [.errRuntime, .errCanceled, .errPanic, .ok 1008, .errRuntime, .ok 2010, .errOverflow] := by decide
example : (run sampleModule).map (·.1.fmod) = [false, false, false, true, true, true, false] := by decide
example : modEnds (bodyState (fresh 0) 0 sampleModule.head!) sampleModule.head! = true := by decide

/-! ### Shared contexts, already cancelled contexts, growing code objects -/

/-- **An already cancelled context stops the run, whatever happened before.**  From every
    state a history can leave behind - whichever earlier invocations were handed the same
    context object, however they ended, whether the context was cancelled during one of them,
    while the VM was idle, or before it was ever used -: an invocation (Run, RunCode or Call)
    that is handed a context which is already cancelled when it starts returns
    `context.Canceled`.  `start` clears `halt` but arms a NEW watcher for every invocation, and
    a watcher armed for a cancelled context fires at once.  The one exception is the recorded
    race of `RunCode` on a used VM (`loses`: `resetForNewCode` runs after `start` and may wipe
    the watcher's store). -/
theorem cancelled_ctx_stops_every_later_run (s : St) (k : Nat) (inv : Inv) (g : Good s k)
    (hd : dead s k inv = true) (hl : loses s k inv = false) :
    (invoke s k inv).2 = .errCanceled := by
  rw [step_outcome s k inv g]
  have : cut s k inv = true := by unfold cut; rw [hd, hl]; rfl
  rw [this]; rfl

/-- ... and nothing of the script is executed beyond its first instruction: the host global
    is untouched, the leaf is not reached, the frame pointer is at the base -/
theorem cancelled_ctx_run_does_nothing (s : St) (k : Nat) (inv : Inv) (g : Good s k)
    (hd : dead s k inv = true) (hl : loses s k inv = false) :
    (invoke s k inv).1.acc = s.acc ∧ leafReached s k inv = false ∧ (invoke s k inv).1.fp = 0 ∧
    (invoke s k inv).1.halt = true := by
  have hc : cut s k inv = true := by unfold cut; rw [hd, hl]; rfl
  obtain ⟨_, b2, b3, _⟩ := bodyState_facts s k inv g
  rw [invoke_eq s k inv g, hc]
  refine ⟨b2, ?_, b3, rfl⟩
  unfold leafReached; rw [hc]; rfl

/-- Run and Call never lose the cancellation, nor does the first start of a VM -/
theorem cancelled_ctx_stops_run_and_call (s : St) (k : Nat) (inv : Inv) (g : Good s k)
    (hd : dead s k inv = true) (hk : inv.kind ≠ .runCode ∨ s.startCount = 0) :
    (invoke s k inv).2 = .errCanceled := by
  apply cancelled_ctx_stops_every_later_run s k inv g hd
  unfold loses
  rcases hk with hk | hk
  · cases h : inv.kind <;> simp_all
  · simp [hk]

/-- the same for whole histories: in every history of any length in which the reset race does
    not strike (`lostFires` nowhere), EVERY invocation that is handed an already cancelled
    context returns `context.Canceled` -/
theorem cancelled_ctx_stops_every_later_run_history (s : St) (k : Nat) (h : List Inv)
    (g : Good s k) (hl : anyFrom lostFires s k h = false) :
    ∀ o ∈ deadOutcomesFrom s k h, o = .errCanceled := by
  induction h generalizing s k with
  | nil => intro o ho; simp [deadOutcomesFrom] at ho
  | cons inv rest ih =>
    simp only [anyFrom, Bool.or_eq_false_iff] at hl
    intro o ho
    simp only [deadOutcomesFrom, List.mem_append] at ho
    rcases ho with ho | ho
    · cases hd : dead s k inv with
      | false => rw [hd] at ho; simp at ho
      | true =>
        rw [hd] at ho
        simp only [↓reduceIte, List.mem_singleton] at ho
        have hls : loses s k inv = false := by
          have := hl.1; unfold lostFires at this; rw [hd] at this; simpa using this
        rw [ho]
        exact cancelled_ctx_stops_every_later_run s k inv g hd hls
    · exact ih _ _ (step_good s k inv g) hl.2 o ho

/-- Counterexample 3 (the reset of `RunCode` wipes the cancellation): context 7 is cancelled
    before it is ever used; the first RunCode that is handed it returns `context.Canceled`,
    a second one - in the schedule in which the watcher stores `halt` before
    `resetForNewCode` clears it - runs to the end and returns 1003. -/
def witnessLost : List Inv :=
  [ { kind := .runCode, beh := .normal, depth := 0, pend := 0, v := 2, bump := 1, bg := false,
      imp := false, pre := [7], during := [], ctx := some 7 },
    { kind := .runCode, beh := .normal, depth := 0, pend := 0, v := 3, bump := 1, bg := false,
      imp := false, pre := [], during := [], ctx := some 7, sched := .lost } ]

theorem C07_counterexample_reset_loses_cancellation : ¬ C07_full := by
  intro h
  have := h witnessLost (.ok 1003, .errCanceled) (by decide)
  exact absurd this (by decide)

example : pairs witnessLost = [(.errCanceled, .errCanceled), (.ok 1003, .errCanceled)] := by decide
example : lostCancel witnessLost = true ∧ staleCancel witnessLost = false := by decide

/-- **`RunCode` executes the code object's CURRENT contents.**  From every state a history
    can leave behind, whatever the VM ran before - the same code object when it was shorter,
    other code objects, Run, Call -: the snapshot that `RunCode` executes contains exactly
    the snippets the code object contains when the invocation starts.  (`resetForNewCode`
    empties `vm.loadedCode`, and a VM that was never started has wrapped nothing: the look-up
    never finds a wrapper made before the object grew.) -/
theorem run_uses_current_code (s : St) (k : Nat) (inv : Inv) (g : Good s k) :
    (bodyState s k inv).cur = curGen s k inv :=
  (bodyState_facts s k inv g).2.2.2.2.2.1

/-- the same for whole histories of any length: every `RunCode` of every history executes
    the generation its code object has at that moment -/
theorem run_uses_current_code_history (s : St) (k : Nat) (h : List Inv) (g : Good s k) :
    ∀ p ∈ gensFrom s k h, p.1 = p.2 := by
  induction h generalizing s k with
  | nil => intro p hp; simp [gensFrom] at hp
  | cons inv rest ih =>
    intro p hp
    simp only [gensFrom, List.mem_append] at hp
    rcases hp with hp | hp
    · split at hp
      · simp only [List.mem_singleton] at hp
        rw [hp]; exact run_uses_current_code s k inv g
      · simp at hp
    · exact ih _ _ (step_good s k inv g) p hp

/-- ... hence a successful `RunCode` of a grown code object returns the value of its LAST
    snippet: with a live context, no import and no cancellation during the run, the outcome of
    a normally ending RunCode is `v + 1000·len(acc) + 1 000 000·(current generation)` -/
theorem run_uses_current_code_outcome (s : St) (k : Nat) (inv : Inv) (g : Good s k)
    (hk : inv.kind = .runCode) (hb : inv.beh = .normal) (hd : dead s k inv = false)
    (hi : inv.imp = false) (hdu : inv.during = []) :
    (invoke s k inv).2 =
      .ok (inv.v + 1000 * (s.acc + inv.bump) + 1000000 * genOf (preState s k inv) (codeOf k inv)) := by
  have hh : harms s k inv = false := by
    have hl : lostFires s k inv = false := by unfold lostFires; rw [hd]; rfl
    unfold harms staleFires importFails
    rw [hl, hi, hdu]; simp [others]
  rw [(C07_step_exact s k inv g).2 hh]
  unfold specAt specOutcome curGen ownCancel behOutcome
  rw [hd, hb, if_pos hk]; simp

/-- why the wrapper cache must be forgotten (what a VM that kept its wrappers across resets
    would do): from a state that is NOT one a history of the unchanged code can leave behind -
    never started, yet holding a wrapper of code object 0 made when it had no growth snippet -
    `RunCode` of the grown object executes the OLD snapshot -/
example :
    let s : St := { loaded := [(0, 0)], grown := [0] }
    let inv : Inv := { kind := .runCode, beh := .normal, depth := 0, pend := 0, v := 3, bump := 0,
                       bg := false, imp := false, pre := [], during := [], same := some 0 }
    (bodyState s 1 inv).cur = 0 ∧ curGen s 1 inv = 1 ∧ (invoke s 1 inv).2 = .ok 3 ∧
    specAt s 1 inv = .ok 1000003 := by decide

/-- non-vacuity: eight invocations on one VM that share two context objects (50 and 60) and one
    growing code object (0).  Context 50 is used by three invocations and cancelled in the
    middle of the second; context 60 is cancelled before it is ever used; the code object of
    invocation 0 grows twice and is run again after each growth, with Run and Call in
    between.  No guard is violated and every outcome is the Spec's. -/
def sampleShared : List Inv :=
  [ { kind := .runCode, beh := .normal, depth := 1, pend := 1, v := 5, bump := 1, bg := false, imp := false, pre := [], during := [], ctx := some 50 },
    { kind := .call, beh := .selfCancel, depth := 2, pend := 0, v := 6, bump := 1, bg := false, imp := false, pre := [], during := [], ctx := some 50 },
    { kind := .runCode, beh := .normal, depth := 0, pend := 1, v := 7, bump := 1, bg := false, imp := false, pre := [], during := [], same := some 0, grows := [0] },
    { kind := .run, beh := .normal, depth := 3, pend := 2, v := 8, bump := 1, bg := false, imp := false, pre := [], during := [], ctx := some 50, sched := .early },
    { kind := .call, beh := .err, depth := 0, pend := 0, v := 9, bump := 1, bg := false, imp := false, pre := [60], during := [], ctx := some 60 },
    { kind := .runCode, beh := .normal, depth := 0, pend := 1, v := 10, bump := 0, bg := false, imp := false, pre := [], during := [50, 60], same := some 0, grows := [0], fimp := true },
    { kind := .runCode, beh := .panic, depth := 0, pend := 0, v := 11, bump := 0, bg := false, imp := false, pre := [], during := [], ctx := some 60 },
    { kind := .runCode, beh := .normal, depth := 0, pend := 0, v := 12, bump := 0, bg := true, imp := false, pre := [], during := [], ctx := some 60 } ]

example : harmed sampleShared = false ∧ staleCancel sampleShared = false ∧
    lostCancel sampleShared = false := by decide
example : (pairs sampleShared).map (·.1) =
    [.ok 1005, .errCanceled, .ok 1003007, .errCanceled, .errCanceled, .ok 2003010, .errCanceled,
     .ok 3012] := by decide
example : gensFrom (fresh 0) 0 sampleShared = [(0, 0), (1, 1), (2, 2), (0, 0), (0, 0)] := by decide
example : deadOutcomesFrom (fresh 0) 0 sampleShared = [.errCanceled, .errCanceled, .errCanceled] := by
  decide

/-! ### Depth -/

theorem frameStep_leafSig (halt own : Bool) (b : Beh) (v acc g : Nat) :
    frameStep halt own (leafSig halt own b v acc g) = leafSig halt own b v acc g := by
  cases halt <;> cases own <;> cases b <;> rfl

theorem unwind_leafSig (halt own : Bool) (b : Beh) (v acc g : Nat) (d : Nat) :
    unwind halt own d (leafSig halt own b v acc g) = leafSig halt own b v acc g := by
  induction d with
  | zero => rfl
  | succ n ih => rw [unwind, frameStep_leafSig, ih]

/-- **The depth at which a run ends does not matter.**  For every number `d` of enclosing
    script frames, carrying the leaf's signal (value, error, Go panic, or the cut-short
    "success") up through `d` frames that each poll `halt` gives exactly the outcome the
    run-state model uses (`leafOutcome`): an error raised at depth `d` surfaces unchanged,
    and a run cut short by a stale watcher is cut short at EVERY level and returns
    "success" with the host callback's value. -/
theorem C07_depth_irrelevant (s : St) (k : Nat) (inv : Inv) (d : Nat) :
    sigOutcome (unwind s.halt (s.gone || (!inv.bg && s.cancelled.contains k)) d
      (leafSig s.halt (s.gone || (!inv.bg && s.cancelled.contains k)) inv.beh inv.v s.acc s.cur))
      = leafOutcome s k inv := by
  rw [unwind_leafSig]
  unfold leafOutcome leafSig behOutcome
  cases s.halt <;> cases (s.gone || (!inv.bg && s.cancelled.contains k)) <;> cases inv.beh <;> rfl

/-! ## Names looked up on a reused VM (`vm.Get`, `vm.GlobalNames`, `risor.Call`'s RunCode + Get + Call)

The code objects a reused VM runs lay their globals out differently, so one NAME lives in
different SLOTS from one invocation to the next.  `lookPairs h` lists, for every look-up the host
makes after an invocation of the history `h` (`LInv`: the invocation, the layout of the code
object compiled for it, the names asked for before and after it), the answer on the reused VM
(Impl: `get`, a scan of the active code's symbol table) and the answer the Spec demands (the same
look-up after the same invocation on a fresh VM; `none` where the property demands nothing by
itself, see `specGet`). -/

/-- **The property for look-ups, in full**: every name resolves after every invocation as it
    does after the same invocation on a fresh VM.  It does NOT hold for the code as it is (a
    `RunCode` whose cancellation the reset lost executes definitions that a fresh VM never
    reaches: `C07_lookups_counterexample_lost`). -/
def C07_lookups_full : Prop :=
  ∀ h : List LInv, ∀ p ∈ lookPairs h, ∀ x, p.2 = some x → p.1 = x

/-- **One invocation, any reused VM**: for every run-state `s` and name storage `g` that earlier
    invocations (any number, any kinds, any endings, any layouts, any look-ups) can leave, every
    invocation `inv`, every layout and every name `n`: unless the reset loses the cancellation of
    the invocation's context (known finding), the name resolves after the invocation exactly as
    the Spec demands - whatever slot it had in the code objects that ran before. -/
theorem C07_lookup_step (g : GSt) (s : St) (k : Nat) (inv : Inv) (lay : Lay) (n : GName) (x : Got)
    (hg : Good s k) (gg : GGood g s k) (hl : lostFires s k inv = false)
    (hs : specGet s k inv lay n = some x) : get (ginvoke g s k inv lay) n = x := by
  have hcut : cut s k inv = dead s k inv := by
    unfold cut; unfold lostFires at hl
    cases hd : dead s k inv <;> cases hlo : loses s k inv <;> simp_all
  unfold specGet at hs
  cases hk : inv.kind with
  | runCode =>
    simp only [hk] at hs
    rw [(get_after_runCode g s k inv lay n hg gg hk).1, hcut]
    exact Option.some.inj hs
  | call =>
    simp only [hk] at hs
    split at hs
    · cases hs
    · rename_i h
      rw [(get_after_setup g s k inv lay n hg hk (by simpa using h)).1]
      exact Option.some.inj hs
  | run =>
    simp only [hk] at hs
    split at hs
    · rename_i h
      rw [get_after_run g s k inv lay n hg gg hk h, hcut]
      exact Option.some.inj hs
    · cases hs

/-- `vm.GlobalNames()` after an invocation that loads code is the symbol table of that code,
    whatever the VM ran before (no guard needed) -/
theorem C07_globalNames_step (g : GSt) (s : St) (k : Nat) (inv : Inv) (lay : Lay)
    (ns : List GName) (hg : Good s k) (gg : GGood g s k)
    (hs : specNames s k inv lay = some ns) : globalNames (ginvoke g s k inv lay) = ns := by
  unfold specNames at hs
  cases hk : inv.kind with
  | runCode =>
    simp only [hk] at hs
    rw [(get_after_runCode g s k inv lay .nosuch hg gg hk).2]
    exact Option.some.inj hs
  | call =>
    simp only [hk] at hs
    split at hs
    · cases hs
    · rename_i h
      rw [(get_after_setup g s k inv lay .nosuch hg hk (by simpa using h)).2]
      exact Option.some.inj hs
  | run => simp [hk] at hs

theorem lookPairsFrom_ok (s : St) (g : GSt) (k : Nat) (h : List LInv) (hg : Good s k)
    (gg : GGood g s k) (hl : anyFrom lostFires s k (h.map (·.inv)) = false) :
    ∀ l ∈ lrunFrom s g k h, ∀ p ∈ l.post, ∀ x, p.2 = some x → p.1 = x := by
  induction h generalizing s g k with
  | nil => intro l hl'; simp [lrunFrom] at hl'
  | cons a rest ih =>
    simp only [List.map_cons, anyFrom, Bool.or_eq_false_iff] at hl
    intro l hmem
    simp only [lrunFrom, List.mem_cons] at hmem
    rcases hmem with hmem | hmem
    · subst hmem
      intro p hp x hx
      simp only [looked, List.mem_map] at hp
      obtain ⟨n, _, rfl⟩ := hp
      exact C07_lookup_step g s k a.inv a.lay n x hg gg hl.1 hx
    · exact ih _ _ _ (step_good s k a.inv hg) (ggood_step g s k a.inv a.lay hg gg) hl.2 l hmem

/-- **The property for look-ups under the guard of the recorded defect**: in every history (any
    length, any kinds, endings, contexts, code objects, LAYOUTS and look-ups) in which no `RunCode`
    loses the cancellation of its context, every name the host looks up after an invocation
    resolves as after the same invocation on a fresh VM. -/
theorem C07_lookups_partial (h : List LInv) (hl : lostCancel (h.map (·.inv)) = false) :
    ∀ p ∈ lookPairs h, ∀ x, p.2 = some x → p.1 = x := by
  intro p hp
  simp only [lookPairs, lrun, List.mem_flatMap] at hp
  obtain ⟨l, hl', hp⟩ := hp
  exact lookPairsFrom_ok (fresh 0) {} 0 h (good_fresh 0 0) (ggood_fresh 0 0) hl l hl' p hp


/-- a context that is cancelled during the first `RunCode` is handed to a second one, whose
    cancellation the reset loses: its definitions are executed; the host looks `who` up -/
def witnessLookLost : List LInv :=
  [ { inv := { kind := .runCode, beh := .selfCancel, depth := 0, pend := 0, v := 2, bump := 0, bg := false, imp := false, pre := [], during := [] } },
    { inv := { kind := .runCode, beh := .normal, depth := 0, pend := 0, v := 3, bump := 0, bg := false, imp := false, pre := [], during := [], ctx := some 0, sched := .lost },
      post := [.who] } ]

theorem C07_lookups_counterexample_lost : ¬ C07_lookups_full := by
  intro h
  have := h witnessLookLost (.val (.int 101), some (.val .unbound)) (by decide) _ rfl
  exact absurd this (by decide)

example : lookPairs witnessLookLost = [(.val (.int 101), some (.val .unbound))] := by decide
example : lostCancel (witnessLookLost.map (·.inv)) = true := by decide

/-- **Independent of the VM's history**: after a `RunCode` the answer to every look-up is the
    same on ANY two reused VMs (whatever they ran, loaded, defined and were asked before), given
    only that the run is or is not stopped at once by its dead context on both. -/
theorem C07_lookup_independent_of_history (g₁ g₂ : GSt) (s₁ s₂ : St) (k : Nat) (inv : Inv)
    (lay : Lay) (n : GName) (h₁ : Good s₁ k) (h₂ : Good s₂ k) (gg₁ : GGood g₁ s₁ k)
    (gg₂ : GGood g₂ s₂ k) (hk : inv.kind = .runCode) (hc : cut s₁ k inv = cut s₂ k inv) :
    get (ginvoke g₁ s₁ k inv lay) n = get (ginvoke g₂ s₂ k inv lay) n ∧
    globalNames (ginvoke g₁ s₁ k inv lay) = globalNames (ginvoke g₂ s₂ k inv lay) := by
  obtain ⟨a1, a2⟩ := get_after_runCode g₁ s₁ k inv lay n h₁ gg₁ hk
  obtain ⟨b1, b2⟩ := get_after_runCode g₂ s₂ k inv lay n h₂ gg₂ hk
  rw [a1, a2, b1, b2, hc]
  exact ⟨rfl, rfl⟩

/-- **A name's slot does not matter**: after `RunCode` of a code object with ANY layout (wherever
    the layout puts them, wherever the code objects that ran before had them) `who` is the mark of
    THAT code object and every host name it was compiled with is the host's object. -/
theorem C07_who_and_hosts_after_runCode (g : GSt) (s : St) (k : Nat) (inv : Inv) (lay : Lay)
    (hg : Good s k) (gg : GGood g s k) (hk : inv.kind = .runCode) (hc : cut s k inv = false) :
    get (ginvoke g s k inv lay) .who = .val (.int (100 + codeOf k inv)) ∧
    ∀ i, GName.host i ∈ hostTbl lay.hset → get (ginvoke g s k inv lay) (.host i) = .val (.host i) := by
  refine ⟨?_, fun i hi => ?_⟩
  · rw [(get_after_runCode g s k inv lay .who hg gg hk).1, hc]
    have h1 : GName.who ∈ defNames lay := by unfold defNames; simp
    have h2 : GName.who ∈ codeTbl lay := by unfold codeTbl; exact List.mem_append_right _ h1
    simp [codeGet, h1, h2, defVal, whoVal]
  · rw [(get_after_runCode g s k inv lay (.host i) hg gg hk).1, hc]
    have h2 : GName.host i ∈ codeTbl lay := by unfold codeTbl; exact List.mem_append_left _ hi
    have h1 : GName.host i ∉ defNames lay := by
      unfold defNames; cases lay.swap <;> simp
    simp [codeGet, h1, h2, initVal]

/-- **A `Call` of a function of the code an earlier invocation loaded changes no answer**: every
    name resolves after the Call as before it, and `GlobalNames()` is unchanged -/
theorem C07_call_keeps_globals (g : GSt) (s : St) (k : Nat) (inv : Inv) (lay : Lay) (n : GName)
    (hg : Good s k) (hk : inv.kind = .call) (hc : (preState s k inv).hasCode = true) :
    get (ginvoke g s k inv lay) n = get g n ∧
    globalNames (ginvoke g s k inv lay) = globalNames g := by
  rw [call_keeps_globals g s k inv lay hg hk hc]
  exact ⟨rfl, rfl⟩

/-- the pair (run-state, name storage) after a history -/
def lfinalFrom (s : St) (g : GSt) (k : Nat) : List LInv → St × GSt
  | [] => (s, g)
  | x :: rest => lfinalFrom (invoke s k x.inv).1 (ginvoke g s k x.inv x.lay) (k + 1) rest

theorem lfinalFrom_good (s : St) (g : GSt) (k : Nat) (h : List LInv) (hg : Good s k)
    (gg : GGood g s k) (hl : Linked g s) :
    Good (lfinalFrom s g k h).1 (k + h.length) ∧ GGood (lfinalFrom s g k h).2 (lfinalFrom s g k h).1 (k + h.length) ∧
    Linked (lfinalFrom s g k h).2 (lfinalFrom s g k h).1 := by
  induction h generalizing s g k with
  | nil => exact ⟨hg, gg, hl⟩
  | cons a rest ih =>
    have := ih _ _ _ (step_good s k a.inv hg) (ggood_step g s k a.inv a.lay hg gg)
      (linked_step g s k a.inv a.lay hg gg hl)
    simp only [lfinalFrom, List.length_cons]
    rw [show k + (rest.length + 1) = k + 1 + rest.length by omega]
    exact this

/-- **`Get` + `Call` fetches the right function, after any history**: after every history of
    invocations with any layouts and look-ups, a further `Call` - whether it has to load
    definitions or calls into the code an earlier invocation left active - finds under the name it
    asks for the function of that name OF THE ACTIVE CODE (never a function, a variable or a host
    object that happens to live in the slot the name had in a code object that ran earlier). -/
theorem C07_call_fetches_active_function (h : List LInv) (inv : Inv) (lay : Lay)
    (hk : inv.kind = .call) :
    let s := (lfinalFrom (fresh 0) {} 0 h).1
    let g := ginvoke (lfinalFrom (fresh 0) {} 0 h).2 s h.length inv lay
    ∃ w, activeWrap g = some w ∧ get g (callTarget g) = .val (.fn (callTarget g) w.owner) := by
  intro s g
  obtain ⟨hg, gg, hl⟩ := lfinalFrom_good (fresh 0) {} 0 h (good_fresh 0 0) (ggood_fresh 0 0)
    (linked_fresh 0)
  simp only [Nat.zero_add] at hg gg
  have hstep := linked_step _ s h.length inv lay hg gg hl
  have hc : (invoke s h.length inv).1.hasCode = true := by
    rw [invoke_hasCode s h.length inv hg]; simp [hk]
  obtain ⟨w, hw, hs⟩ := hstep hc
  refine ⟨w, hw, ?_⟩
  show (match activeWrap g with | none => Got.noCode | some w => scan w.slots (callTarget g)) = _
  rw [hw]
  exact hs


/-- the name storage after each invocation of a history -/
def gstatesFrom (s : St) (g : GSt) (k : Nat) : List LInv → List GSt
  | [] => []
  | x :: rest =>
    ginvoke g s k x.inv x.lay :: gstatesFrom (invoke s k x.inv).1 (ginvoke g s k x.inv x.lay) (k + 1) rest

/-- **Look-ups leave no trace**: the storage every later look-up (and every later invocation)
    reads is the same whichever names the host asked for, and however often, before: two
    histories that differ only in their look-ups pass through the same states.  (`get` is a
    function of the state - `Get` and `GlobalNames` assign no field of the VM, tie
    `get_is_read_only_tie`.) -/
theorem lookups_leave_no_trace (s : St) (g : GSt) (k : Nat) (h h' : List LInv)
    (e : h.map (fun x => (x.inv, x.lay)) = h'.map (fun x => (x.inv, x.lay))) :
    gstatesFrom s g k h = gstatesFrom s g k h' := by
  induction h generalizing s g k h' with
  | nil => cases h' <;> simp_all [gstatesFrom]
  | cons a rest ih =>
    cases h' with
    | nil => simp at e
    | cons b rest' =>
      simp only [List.map_cons, List.cons.injEq, Prod.mk.injEq] at e
      obtain ⟨⟨e1, e2⟩, e3⟩ := e
      simp only [gstatesFrom, e1, e2]
      rw [ih _ _ _ rest' e3]

/-- the answers of a history's look-ups are the answers of `get` in those states -/
theorem lrunFrom_post (s : St) (g : GSt) (k : Nat) (h : List LInv) :
    (lrunFrom s g k h).map (fun l => l.post.map (·.1)) =
      List.zipWith (fun g' (x : LInv) => x.post.map (get g')) (gstatesFrom s g k h) h := by
  induction h generalizing s g k with
  | nil => rfl
  | cons a rest ih =>
    simp only [lrunFrom, gstatesFrom, List.map_cons, List.zipWith_cons_cons, ih, looked,
      List.map_map]
    rfl

/-- two code objects that differ by one filler function: `act` lives in slot 8 of the first and
    in slot 9 of the second; the host asks for `act` after each -/
def witnessMoved : List LInv :=
  [ { inv := { kind := .runCode, beh := .normal, depth := 0, pend := 0, v := 2, bump := 0, bg := false, imp := false, pre := [], during := [] },
      post := [.act 0] },
    { inv := { kind := .runCode, beh := .normal, depth := 0, pend := 0, v := 3, bump := 0, bg := false, imp := false, pre := [], during := [] },
      lay := { fills := 1 }, post := [.act 0] } ]

/-- **The forbidden variant is not independent of the VM's history** (contrast): with a per-VM
    cache name ↦ slot that survives `RunCode`'s switch to another code object, the look-up of
    `act` after the second `RunCode` answers with the function `over` (what lives in the slot `act`
    had in the FIRST code object); asked on a VM that ran the second code object alone it answers
    `act`, as `get` does in both cases. -/
theorem cachedGet_depends_on_history :
    lrunCachedFrom [] (fresh 0) {} 0 witnessMoved =
      [[.val (.fn (.act 0) (.code 0))], [.val (.fn (.over 0) (.code 1))]] ∧
    lrunCachedFrom [] (fresh 0) {} 1 (witnessMoved.drop 1) = [[.val (.fn (.act 0) (.code 1))]] ∧
    (lrun witnessMoved).map (fun l => l.post.map (·.1)) =
      [[.val (.fn (.act 0) (.code 0))], [.val (.fn (.act 0) (.code 1))]] := by
  decide

example : lostCancel (witnessMoved.map (·.inv)) = false := by decide
example : (lrun witnessMoved).map (·.names) =
    [codeTbl {}, codeTbl { fills := 1 }] := by decide
example : slotOf ((codeTbl {}).map (fun n => (n, GVal.unbound))) (.act 0) = some 8 ∧
    slotOf ((codeTbl { fills := 1 }).map (fun n => (n, GVal.unbound))) (.act 0) = some 9 := by decide

/-! ## Host DATA globals converted by copy (round 6)

All histories of `RunCode` invocations (any length), any Go data the host constructs the VM with
or hands in later with `WithGlobals`, any in-place updates by the scripts, however each run ends. -/

/-- **One step**: from ANY state of the VM (whatever earlier invocations did to their copies of
    the host's data), a `RunCode` sees - and leaves for the host to read - exactly what the same
    invocation sees on a fresh VM constructed with the host's current Go data; and the host's Go
    data changes only by the host's own `WithGlobals`. -/
theorem C07_data_step (s : DSt) (v : DInv) :
    (dRunCode s v).2 = dSpecAt s.input v ∧ (dRunCode s v).1.input = v.give.getD s.input := by
  cases hv : v.give <;> simp [dRunCode, dSpecAt, dApplyOptions, dNew, hv]

/-- the scripts never reach the host's Go data: after any history `vm.inputGlobals` is what the
    host supplied last (invariant between invocations). -/
theorem C07_data_host_untouched (d0 : DVal) (h : List DInv) :
    (dAfter d0 h).input = dCurrent d0 h := by
  unfold dAfter dCurrent
  have key : ∀ (h : List DInv) (s : DSt),
      (dAfterFrom s h).input = h.foldl (fun d v => v.give.getD d) s.input := by
    intro h
    induction h with
    | nil => intro s; rfl
    | cons v rest ih =>
      intro s
      show (dAfterFrom (dRunCode s v).1 rest).input = _
      rw [ih, (C07_data_step s v).2]
      rfl
  exact key h (dNew d0)

/-- **The property for data globals, all histories**: after ANY history `h` on the VM, the
    invocation `v` sees what it sees on a fresh VM constructed with the host's current data. -/
theorem C07_data_after_any_history (d0 : DVal) (h : List DInv) (v : DInv) :
    (dRunCode (dAfter d0 h) v).2 = dSpecAt (dCurrent d0 h) v := by
  rw [(C07_data_step _ v).1, C07_data_host_untouched]

/-- … hence two VMs with different pasts whose hosts hold the same Go data now agree on every
    next invocation: the outcome depends on the code and the host-supplied globals only. -/
theorem C07_data_independent_of_history (d0 d0' : DVal) (h h' : List DInv) (v : DInv)
    (hcur : dCurrent d0 h = dCurrent d0' h') :
    (dRunCode (dAfter d0 h) v).2 = (dRunCode (dAfter d0' h') v).2 := by
  rw [C07_data_after_any_history, C07_data_after_any_history, hcur]

/-- the same, as lists: what the invocations of a history see one after the other on ONE VM is
    what the Spec demands for each of them. -/
theorem C07_data_full (d0 : DVal) (h : List DInv) : dRun d0 h = dSpecFrom d0 h := by
  unfold dRun
  have key : ∀ (h : List DInv) (s : DSt), dRunFrom s h = dSpecFrom s.input h := by
    intro h
    induction h with
    | nil => intro s; rfl
    | cons v rest ih =>
      intro s
      show (dRunCode s v).2 :: dRunFrom (dRunCode s v).1 rest = dSpecAt s.input v :: dSpecFrom (v.give.getD s.input) rest
      rw [ih, (C07_data_step s v).1, (C07_data_step s v).2]
  exact key h (dNew d0)

/-- a `RunCode` without `WithGlobals` starts from the host's data as constructed, whatever the
    scripts before it did: `data` has the host's elements followed by the own appends only. -/
theorem C07_data_no_options_sees_host_data (d0 : DVal) (h : List DInv) (ops : List DOp)
    (hno : ∀ v ∈ h, v.give = none) :
    (dRunCode (dAfter d0 h) { ops := ops }).2 = dApplyAll d0 ops := by
  rw [C07_data_after_any_history]
  have : dCurrent d0 h = d0 := by
    unfold dCurrent
    induction h with
    | nil => rfl
    | cons v rest ih =>
      have hv := hno v (List.mem_cons_self)
      show rest.foldl _ (v.give.getD d0) = d0
      rw [hv]
      exact ih (fun w hw => hno w (List.mem_cons_of_mem _ hw))
  rw [this]
  rfl

/-- two invocations of one script (`data.append(1)`, `cfg["n"]` decremented) without options -/
def witnessData : List DInv := [{ ops := [.app 1, .dec] }, { ops := [.app 1, .dec] }]

/-- **The forbidden variant is not independent of the VM's history** (contrast): when the
    conversion is repeated only if `WithGlobals` was among the options, the second invocation sees
    the first one's updates (`[7, 1, 1]`, 1 instead of `[7, 1]`, 2); with the option handed in
    again it agrees with the code as it is. -/
theorem dirtyFlag_depends_on_history :
    dRunDirtyFrom (dNew { items := [7], ctr := 3 }) witnessData =
      [{ items := [7, 1], ctr := 2 }, { items := [7, 1, 1], ctr := 1 }] ∧
    dRun { items := [7], ctr := 3 } witnessData =
      [{ items := [7, 1], ctr := 2 }, { items := [7, 1], ctr := 2 }] ∧
    dRunDirtyFrom (dNew { items := [7], ctr := 3 })
        (witnessData.map (fun v => { v with give := some { items := [7], ctr := 3 } })) =
      [{ items := [7, 1], ctr := 2 }, { items := [7, 1], ctr := 2 }] := by
  decide

example : dRun {} [{ give := some { items := [1] }, ops := [.app 2] }, { ops := [.dec] }] =
    [{ items := [1, 2] }, { items := [1], ctr := -1 }] := by decide

/-! ## Objects the host keeps across invocations (round 7)

All statements are about `kStep` (Impl: `activateFunction` resolves a function's code in the
current `vm.loadedCode`), for ALL machine states - hence after every history of RunCode (same,
other, grown code objects; ending with a value, an error or a panic; firing kept callbacks from a
host builtin), `vm.Get`-and-keep, calls of kept objects and reads of kept lists. -/

/-- **A kept function sees the current globals.**  Whatever state a history left behind: a call of
    a kept function/closure `f` of code object `c`, while a load `g` of `c` is current, executes
    the function's body on exactly that array `g`, stores the result there and touches nothing
    else - in particular no array of an earlier load (`old`) and not the host's table. -/
theorem kept_function_sees_current_globals (s : KSt) (i : Nat) (c : Nat) (f : KFn) (n : Int) (g : KG)
    (hk : s.kept[i]? = some (.fn c f)) (hc : s.cur = some g) (hg : g.code = c) :
    kStep s (.call i n) = ({ s with cur := some (kApply f n g).1 }, (kApply f n g).2) := by
  simp [kStep, kCallObj, kCallFn, hk, hc, hg]

/-- the same after any history on a new VM -/
theorem kept_function_sees_current_globals_history (h : List KInv) (i c : Nat) (f : KFn) (n : Int) (g : KG)
    (hk : (kAfter h).kept[i]? = some (.fn c f)) (hc : (kAfter h).cur = some g) (hg : g.code = c) :
    (kStep (kAfter h) (.call i n)).2 = (kApply f n g).2 ∧
    (kStep (kAfter h) (.call i n)).1.cur = some (kApply f n g).1 ∧
    (kStep (kAfter h) (.call i n)).1.old = (kAfter h).old := by
  rw [kept_function_sees_current_globals _ i c f n g hk hc hg]
  exact ⟨rfl, rfl, rfl⟩

/-- a kept function whose root code object is not the loaded one fails (`loadChildCode` on a nil
    root: recovered panic) and changes nothing - whatever else the history did -/
theorem kept_function_of_unloaded_code_fails (s : KSt) (i c : Nat) (f : KFn) (n : Int)
    (hk : s.kept[i]? = some (.fn c f)) (hc : ∀ g, s.cur = some g → g.code ≠ c) :
    kStep s (.call i n) = (s, .notLoaded) := by
  simp only [kStep, kCallObj, hk, kCallFn]
  cases hcur : s.cur with
  | none => rfl
  | some g => simp [hc g hcur]

/-- **Calling a kept function object = fetching it again and calling that** (`bump`, `peek`):
    same result, same machine afterwards. -/
theorem kept_call_equals_fresh_fetch_call (s : KSt) (i : Nat) (g : KG) (n : Int)
    (hc : s.cur = some g) :
    (s.kept[i]? = some (.fn g.code .bump) → kStep s (.call i n) = kStep s (.callFresh .bump n)) ∧
    (s.kept[i]? = some (.fn g.code .peek) → kStep s (.call i n) = kStep s (.callFresh .peek n)) := by
  constructor <;> intro hk <;> simp [kStep, kCallObj, kFetch, hk, hc]

/-- … for a kept closure (captured value `k`, possibly of an earlier load): the globals end up
    exactly as after a call of the freshly fetched closure; only the captured value is its own. -/
theorem kept_closure_call_equals_fresh_fetch_call (s : KSt) (i : Nat) (g : KG) (k n : Int)
    (hc : s.cur = some g) (hk : s.kept[i]? = some (.fn g.code (.clo k))) :
    (kStep s (.call i n)).1 = (kStep s (.callFresh .cl n)).1 ∧
    (kStep s (.call i n)).2 = .ok k (g.x + n) ∧ (kStep s (.callFresh .cl n)).2 = .ok g.k (g.x + n) := by
  simp [kStep, kCallObj, kCallFn, kFetch, hk, hc, kApply]

/-- the Impl result of every invocation is the Spec (`kSpecRes`: fresh fetch / forgotten loads) -/
def KEq (s₁ s₂ : KSt) : Prop := s₁.cur = s₂.cur ∧ s₁.kept.map KObj.callee = s₂.kept.map KObj.callee

theorem kEq_iff_view (s₁ s₂ : KSt) : KEq s₁ s₂ ↔ kView s₁ = kView s₂ := by
  simp [KEq, kView]

theorem kCallFn_eq (s₁ s₂ : KSt) (e : KEq s₁ s₂) (c : Nat) (f : KFn) (n : Int) :
    (kCallFn s₁ c f n).2 = (kCallFn s₂ c f n).2 ∧ KEq (kCallFn s₁ c f n).1 (kCallFn s₂ c f n).1 := by
  obtain ⟨hc, hk⟩ := e
  cases hcur : s₂.cur with
  | none =>
    have h1 : s₁.cur = none := hc.trans hcur
    have a1 : kCallFn s₁ c f n = (s₁, .notLoaded) := by simp [kCallFn, h1]
    have a2 : kCallFn s₂ c f n = (s₂, .notLoaded) := by simp [kCallFn, hcur]
    rw [a1, a2]; exact ⟨rfl, hc, hk⟩
  | some g =>
    have h1 : s₁.cur = some g := hc.trans hcur
    by_cases hg : g.code = c
    · have a1 : kCallFn s₁ c f n = ({ s₁ with cur := some (kApply f n g).1 }, (kApply f n g).2) := by
        simp [kCallFn, h1, hg]
      have a2 : kCallFn s₂ c f n = ({ s₂ with cur := some (kApply f n g).1 }, (kApply f n g).2) := by
        simp [kCallFn, hcur, hg]
      rw [a1, a2]; exact ⟨rfl, rfl, hk⟩
    · have a1 : kCallFn s₁ c f n = (s₁, .notLoaded) := by simp [kCallFn, h1, hg]
      have a2 : kCallFn s₂ c f n = (s₂, .notLoaded) := by simp [kCallFn, hcur, hg]
      rw [a1, a2]; exact ⟨rfl, hc, hk⟩

theorem kCallObj_eq (s₁ s₂ : KSt) (e : KEq s₁ s₂) (o₁ o₂ : Option KObj)
    (ho : o₁.map KObj.callee = o₂.map KObj.callee) (n : Int) :
    (kCallObj s₁ o₁ n).2 = (kCallObj s₂ o₂ n).2 ∧ KEq (kCallObj s₁ o₁ n).1 (kCallObj s₂ o₂ n).1 := by
  cases o₁ with
  | none =>
    cases o₂ with
    | none => exact ⟨rfl, e⟩
    | some b => cases b <;> simp [KObj.callee] at ho <;> exact ⟨rfl, e⟩
  | some a =>
    cases o₂ with
    | none => simp at ho
    | some b =>
      cases a with
      | list ga =>
        cases b with
        | list gb => exact ⟨rfl, e⟩
        | fn cb fb => simp [KObj.callee] at ho
      | fn ca fa =>
        cases b with
        | list gb => simp [KObj.callee] at ho
        | fn cb fb =>
          simp [KObj.callee] at ho
          obtain ⟨h1, h2⟩ := ho
          subst h1; subst h2
          exact kCallFn_eq s₁ s₂ e _ _ n

theorem kept_get_callee (s₁ s₂ : KSt) (e : KEq s₁ s₂) (i : Nat) :
    (s₁.kept[i]?).map KObj.callee = (s₂.kept[i]?).map KObj.callee := by
  rw [← List.getElem?_map, ← List.getElem?_map, e.2]

theorem kFinish_eq (fl : Bool) (sn : Nat) (r₁ r₂ : KSt × KRes) (h2 : r₁.2 = r₂.2) (h1 : KEq r₁.1 r₂.1) :
    (kFinish fl sn r₁).2 = (kFinish fl sn r₂).2 ∧ KEq (kFinish fl sn r₁).1 (kFinish fl sn r₂).1 := by
  obtain ⟨s₁, q₁⟩ := r₁
  obtain ⟨s₂, q₂⟩ := r₂
  simp only at h2 h1
  subst h2
  by_cases hn : q₁ = .notLoaded
  · have a : ∀ s : KSt, kFinish fl sn (s, q₁) = (s, .ranPanic) := by intro s; simp [kFinish, hn]
    rw [a, a]; exact ⟨rfl, h1⟩
  · cases fl with
    | true =>
      have a : ∀ s : KSt, kFinish true sn (s, q₁) = (s, .ranErr) := by intro s; simp [kFinish, hn]
      rw [a, a]; exact ⟨rfl, h1⟩
    | false =>
      have a : ∀ s : KSt, kFinish false sn (s, q₁) =
          ({ s with cur := s.cur.map (fun g => { g with x := g.x + 10 + 1000 * sn }) }, .ranOk) := by
        intro s; simp [kFinish, hn]
      rw [a, a]
      refine ⟨rfl, ?_, h1.2⟩
      show s₁.cur.map _ = s₂.cur.map _
      rw [h1.1]

/-- a RunCode does not even depend on the array of the load it replaces -/
theorem kRunCode_eq (s₁ s₂ : KSt) (hk : s₁.kept.map KObj.callee = s₂.kept.map KObj.callee)
    (c : Nat) (p : Int) (sn : Nat) (fr : Option (Nat × Int)) (fl : Bool) :
    (kRunCode s₁ c p sn fr fl).2 = (kRunCode s₂ c p sn fr fl).2 ∧
      KEq (kRunCode s₁ c p sn fr fl).1 (kRunCode s₂ c p sn fr fl).1 := by
  have e1 : KEq (kLoad s₁ c p) (kLoad s₂ c p) := by
    refine ⟨rfl, ?_⟩
    simp only [kLoad, List.map_append, hk]
  unfold kRunCode
  cases fr with
  | none => exact kFinish_eq fl sn _ _ rfl e1
  | some q =>
    have := kCallObj_eq _ _ e1 _ _ (kept_get_callee _ _ e1 q.1) q.2
    exact kFinish_eq fl sn _ _ this.1 this.2

/-- **One step depends on the view only**: two machines that agree on the array of the current
    load and on which functions the host keeps (and may differ in every array of an earlier load,
    i.e. in everything earlier invocations accumulated) answer every invocation - RunCode with or
    without a fired callback, keep, call of a kept object, fresh call - alike and agree afterwards.
    (Reading a kept LIST is excluded: its contents are the list's own state.) -/
theorem C07_kept_step (s₁ s₂ : KSt) (e : KEq s₁ s₂) (v : KInv) (hv : ∀ i, v ≠ .read i) :
    (kStep s₁ v).2 = (kStep s₂ v).2 ∧ KEq (kStep s₁ v).1 (kStep s₂ v).1 := by
  have hfetch : ∀ w, (kFetch s₁ w).map KObj.callee = (kFetch s₂ w).map KObj.callee := by
    intro w
    unfold kFetch
    rw [e.1]
    cases s₂.cur with
    | none => rfl
    | some g => cases w <;> rfl
  cases v with
  | read i => exact absurd rfl (hv i)
  | call i n => exact kCallObj_eq s₁ s₂ e _ _ (kept_get_callee s₁ s₂ e i) n
  | keep w =>
    have hf := hfetch w
    show (match kFetch s₁ w with | some o => ({ s₁ with kept := s₁.kept ++ [o] }, KRes.kept) | none => (s₁, KRes.noCode)).2 =
         (match kFetch s₂ w with | some o => ({ s₂ with kept := s₂.kept ++ [o] }, KRes.kept) | none => (s₂, KRes.noCode)).2 ∧
         KEq (match kFetch s₁ w with | some o => ({ s₁ with kept := s₁.kept ++ [o] }, KRes.kept) | none => (s₁, KRes.noCode)).1
             (match kFetch s₂ w with | some o => ({ s₂ with kept := s₂.kept ++ [o] }, KRes.kept) | none => (s₂, KRes.noCode)).1
    cases h1 : kFetch s₁ w with
    | none =>
      cases h2 : kFetch s₂ w with
      | none => exact ⟨rfl, e⟩
      | some b => rw [h1, h2] at hf; simp at hf
    | some a =>
      cases h2 : kFetch s₂ w with
      | none => rw [h1, h2] at hf; simp at hf
      | some b =>
        rw [h1, h2] at hf
        refine ⟨rfl, e.1, ?_⟩
        show (s₁.kept ++ [a]).map KObj.callee = (s₂.kept ++ [b]).map KObj.callee
        simp only [Option.map_some, Option.some.injEq] at hf
        simp only [List.map_append, e.2, List.map_cons, List.map_nil, hf]
  | callFresh w n =>
    have hf := hfetch w
    show (match kFetch s₁ w with | some o => kCallObj s₁ (some o) n | none => (s₁, KRes.noCode)).2 =
         (match kFetch s₂ w with | some o => kCallObj s₂ (some o) n | none => (s₂, KRes.noCode)).2 ∧
         KEq (match kFetch s₁ w with | some o => kCallObj s₁ (some o) n | none => (s₁, KRes.noCode)).1
             (match kFetch s₂ w with | some o => kCallObj s₂ (some o) n | none => (s₂, KRes.noCode)).1
    cases h1 : kFetch s₁ w with
    | none =>
      cases h2 : kFetch s₂ w with
      | none => exact ⟨rfl, e⟩
      | some b => rw [h1, h2] at hf; simp at hf
    | some a =>
      cases h2 : kFetch s₂ w with
      | none => rw [h1, h2] at hf; simp at hf
      | some b =>
        rw [h1, h2] at hf
        exact kCallObj_eq s₁ s₂ e _ _ hf n
  | runCode c p sn fr fl => exact kRunCode_eq s₁ s₂ e.2 c p sn fr fl

/-- **Independence of the past, with kept objects.**  Take ANY two histories `h₁`, `h₂` (different
    lengths; RunCode of any code objects with any parameters and endings; any calls of kept
    functions, which accumulate values in the arrays of their loads) after which the array of the
    current load reads the same and the host keeps the same functions, and continue both with the
    same invocations `t` (RunCode - same, other, grown code object, firing kept callbacks -,
    `vm.Get`-and-keep, calls of kept functions and closures made in ANY earlier load, fresh calls):
    every one of them gives the same result after both. -/
theorem C07_kept_independent_of_history (h₁ h₂ : List KInv) (t : List KInv)
    (hv : kView (kAfter h₁) = kView (kAfter h₂)) (ht : ∀ v ∈ t, ∀ i, v ≠ .read i) :
    kRunFrom (kAfter h₁) t = kRunFrom (kAfter h₂) t := by
  have e := (kEq_iff_view _ _).2 hv
  generalize kAfter h₁ = s₁ at e
  generalize kAfter h₂ = s₂ at e
  clear hv
  induction t generalizing s₁ s₂ with
  | nil => rfl
  | cons v rest ih =>
    have hs := C07_kept_step s₁ s₂ e v (ht v List.mem_cons_self)
    simp only [kRunFrom]
    rw [hs.1, ih (fun w hw => ht w (List.mem_cons_of_mem _ hw)) _ _ hs.2]

/-- the hypothesis is satisfiable by different histories: one with, one without a call that
    accumulated a value in the first load -/
example : kView (kAfter [.runCode 0 5 0 none false, .call 0 7, .runCode 0 5 0 none false]) =
    kView (kAfter [.runCode 0 5 0 none false, .runCode 0 5 0 none false]) := by decide

/-- **The Impl result is the Spec** for every invocation in every state: a call of a kept
    function answers as the freshly fetched one (own captured value for a closure), or fails
    because its code is not loaded; a RunCode answers as on a VM that has forgotten every
    earlier load. -/
theorem C07_kept_full (s : KSt) (v : KInv) : (kStep s v).2 = kSpecRes s v := by
  cases v with
  | read i => rfl
  | keep w => exact (C07_kept_step s { s with old := [] } ⟨rfl, rfl⟩ (.keep w) (by intro i h; cases h)).1
  | callFresh w n =>
    exact (C07_kept_step s { s with old := [] } ⟨rfl, rfl⟩ (.callFresh w n) (by intro i h; cases h)).1
  | runCode c p sn fr fl => exact (kRunCode_eq s { s with old := [], cur := none } rfl c p sn fr fl).1
  | call i n =>
    simp only [kSpecRes, kStep]
    cases hk : s.kept[i]? with
    | none => rfl
    | some o =>
      cases o with
      | list g => cases s.cur <;> rfl
      | fn c f =>
        cases hc : s.cur with
        | none => simp [kCallObj, kCallFn, hc]
        | some g =>
          by_cases hg : g.code = c
          · cases f <;> simp [kCallObj, kCallFn, kFetch, hc, hg, kApply]
          · simp [kCallObj, kCallFn, hc, hg]

/-- **The arrays of earlier loads are frozen**: no invocation changes one (the list only grows at
    its end, when a RunCode retires the current array) … -/
theorem kept_dead_arrays_frozen (s : KSt) (v : KInv) : ∃ t, (kStep s v).1.old = s.old ++ t := by
  have hf : ∀ (s : KSt) c f n, (kCallFn s c f n).1.old = s.old := by
    intro s c f n
    unfold kCallFn
    cases s.cur with
    | none => rfl
    | some g => by_cases hg : g.code = c <;> simp [hg]
  have ho : ∀ (s : KSt) o n, (kCallObj s o n).1.old = s.old := by
    intro s o n
    cases o with
    | none => rfl
    | some a => cases a with
      | list g => rfl
      | fn c f => exact hf _ _ _ _
  have hfin : ∀ fl sn (r : KSt × KRes), (kFinish fl sn r).1.old = r.1.old := by
    intro fl sn r
    unfold kFinish
    by_cases hn : r.2 = .notLoaded
    · simp [hn]
    · cases fl <;> simp [hn]
  cases v with
  | read i =>
    refine ⟨[], ?_⟩
    show (match s.kept[i]? with
      | some (.list g) => (s, match kReadList s g with | some xs => KRes.listIs xs | none => KRes.badTarget)
      | _ => (s, KRes.badTarget)).1.old = s.old ++ []
    split <;> simp
  | keep w =>
    refine ⟨[], ?_⟩
    show (match kFetch s w with | some o => ({ s with kept := s.kept ++ [o] }, KRes.kept) | none => (s, KRes.noCode)).1.old = s.old ++ []
    split <;> simp
  | call i n => exact ⟨[], by simp [kStep, ho]⟩
  | callFresh w n =>
    refine ⟨[], ?_⟩
    show (match kFetch s w with | some o => kCallObj s (some o) n | none => (s, KRes.noCode)).1.old = s.old ++ []
    split <;> simp [ho]
  | runCode c p sn fr fl =>
    refine ⟨s.cur.toList, ?_⟩
    show (kRunCode s c p sn fr fl).1.old = _
    unfold kRunCode
    rw [hfin]
    cases fr with
    | none => rfl
    | some q => exact ho _ _ _

/-- … so a list the host kept from an earlier load reads the same after every later invocation,
    whatever kept functions are called (they append to the CURRENT load's list). -/
theorem kept_list_of_dead_load_is_frozen (s : KSt) (v : KInv) (gen : Nat) (h : gen < s.old.length) :
    kReadList (kStep s v).1 gen = kReadList s gen := by
  obtain ⟨t, ht⟩ := kept_dead_arrays_frozen s v
  unfold kReadList
  rw [ht]
  have h1 : gen ≠ s.old.length := by omega
  have h2 : gen ≠ (s.old ++ t).length := by simp; omega
  simp only [h1, h2, if_false]
  rw [List.getElem?_append_left h]

/-- RunCode(A, p=100); Call(the registered callback, 5); RunCode(A, p=100); Call(the callback
    kept from the FIRST run, 5); Call(the freshly fetched `bump`, 0) -/
def witnessKept : List KInv :=
  [.runCode 0 100 0 none false, .call 0 5, .runCode 0 100 0 none false, .call 0 5, .callFresh .peek 0]

/-- **The forbidden variant is not independent of the history** (contrast): when a function
    object remembers the loaded code of its first call, the kept callback called after the second
    RunCode works on the FIRST load's array (121 = 111 + 5 + 5, and the VM's current global stays
    111); as the code is it returns 116 and the current global is 116.  Without the first call
    (nothing remembered before the reset) the variant agrees with the code as it is. -/
theorem cachedCode_depends_on_history :
    kcRunFrom {} witnessKept = [.ranOk, .ok 0 116, .ranOk, .ok 0 121, .ok 0 111] ∧
    kRunFrom {} witnessKept = [.ranOk, .ok 0 116, .ranOk, .ok 0 116, .ok 0 116] ∧
    kcRunFrom {} (witnessKept.eraseIdx 1) = kRunFrom {} (witnessKept.eraseIdx 1) := by
  decide

example : kRunFrom {} [.runCode 0 1 0 none false, .keep .cl, .keep .items, .runCode 1 2 0 (some (0, 3)) false,
    .call 1 4, .read 2] = [.ranOk, .kept, .kept, .ranPanic, .notLoaded, .listIs [1]] := by decide


end Risor.C07
