import RisorModel.Util
import RisorModel.C07.Model
/-!
Line-protocol front end of the C07 model (requests after the leading `C07` field).

  hist <inv> <inv> …      inv  = kind:beh:depth:pend:v:bump:bg:imp:pre:during:ctx:grows:lay:lkpre:lkpost:sched
                          kind ∈ run|runcode|call, or `runcode@j` (re-supply the code object compiled
                          for invocation j)   beh ∈ normal|err|panic|overflow|selfcancel
                          bg ∈ 0|1   imp ∈ 0|1|2|3 (bit 0: import hostmod, bit 1: import fmod), with
                          the suffix `m` when the ending happens inside fmod's top-level code
                          pre, during = `_` (empty) or context ids joined by `.`
                          ctx = `_` (a context created for the invocation, id = its index) or the id of
                          the context OBJECT it is handed (shared by all invocations naming it)
                          grows = `_` or ids of the code objects the host compiles one more snippet
                          into before the invocation starts     sched ∈ e|f|l (when the watcher of an
                          already cancelled context stores halt: before the first poll | after the
                          first instruction | before RunCode's reset clears halt again - OBSERVED)
                          lay = `_` or hset.fills.swap.pads: the layout of the globals of the code
                          object compiled for the invocation (RunCode: the object it is handed;
                          Call: the definitions loaded when the VM has no code)
                          lkpre, lkpost = `_` or global NAMES joined by `.` that the host looks up
                          (`vm.Get`) before / after the invocation: h<i> (i-th host name), a0/o0
                          (`act`/`over`), a<k+1>/o<k+1> (`act_k`/`over_k` of REPL snippet k), f<i>,
                          g<i>, w (`who`), e (`aaa`), x (a name nobody defines)
  reply: ok <res> <res> … res  = implOutcome,sp,fp,halt,running,startCount,haltBeforeStart,specOutcome,staleFires,fpAtLeaf,importFails,leafReached,moduleCodeRan,len(vm.modules),contextAlreadyCancelled,lostFires,executedGeneration,currentGeneration,
                               preGets,postGets,postSpecs,globalNames,callTarget,specGlobalNames
                          (lists joined by `;`, `-` = empty; a Get answer is nocode | notfound | nil |
                          host<i> | fn:<name>@<main|c<j>|setup> | int:<v>; a Spec is `~` where the
                          property demands nothing by itself)

  data <d0> <dinv> <dinv> …   host DATA globals converted by copy, a history of RunCode invocations
                          d0 = the Go data the VM is constructed with; a value is items/ctr, items =
                          `_` or integers joined by `.`   dinv = give:ops, give = `_` (RunCode is not
                          handed WithGlobals) or a value; ops = `_` or `a<int>` (data.append) / `d`
                          (cfg["n"] decremented) joined by `.`: the updates the script performed
  reply: ok <res> …       res = impl:spec:hostInput:dirtyVariant (values; what data/cfg hold when the
                          invocation has ended on the reused VM / on a fresh VM constructed with
                          the host's current data / vm.inputGlobals afterwards / with the dirty flag)

  kept <kinv> <kinv> …    objects the HOST keeps across invocations (round 7)
                          kinv = r:<code>:<p>:<snips>:<fire>:<fails> (RunCode; fire = `_` or i.n: the
                          host builtin calls kept object i with n; fails ∈ 0|1) | k:<w> (vm.Get and
                          keep; w ∈ b|p|c|l = bump, peek, cl, items) | c:<i>:<n> (vm.Call of kept
                          object i) | f:<w>:<n> (vm.Get then vm.Call) | l:<i> (read kept list i)
  reply: ok <res> …       res = impl;spec;cachedVariant;x;items  (result of the invocation on the
                          reused VM / Spec `kSpecRes` / with the remembered-code variant; what
                          vm.Get finds in `x` and `items` afterwards, `~` without active code)
-/
namespace Risor.C07

def parseKind : String → Option (Kind × Option Nat)
  | "run" => some (.run, none) | "runcode" => some (.runCode, none) | "call" => some (.call, none)
  | s => match s.splitOn "@" with
    | ["runcode", j] => j.toNat?.map (fun j => (.runCode, some j))
    | _ => none

/-- imp field: (import hostmod, import fmod, ending inside fmod's top-level code) -/
def parseImp : String → Option (Bool × Bool × Bool)
  | "0" => some (false, false, false) | "1" => some (true, false, false)
  | "2" => some (false, true, false) | "3" => some (true, true, false)
  | "2m" => some (false, true, true) | "3m" => some (true, true, true)
  | _ => none

def parseBeh : String → Option Beh
  | "normal" => some .normal | "err" => some .err | "panic" => some .panic
  | "overflow" => some .overflow | "selfcancel" => some .selfCancel | _ => none

def parseIds (s : String) : Option (List Nat) :=
  if s = "_" then some [] else (s.splitOn ".").mapM String.toNat?

def parseSched : String → Option Sched
  | "e" => some .early | "f" => some .first | "l" => some .lost | _ => none

def parseInv (s : String) : Option Inv :=
  match s.splitOn ":" with
  | [k, b, d, p, v, bu, bg, im, pre, du, cx, gr, sc] => do
    let (kind, same) ← parseKind k
    let (imp, fimp, mfail) ← parseImp im
    let beh ← parseBeh b
    let depth ← d.toNat?
    let pend ← p.toNat?
    let v ← v.toNat?
    let bump ← bu.toNat?
    let pre ← parseIds pre
    let during ← parseIds du
    let ctx ← (if cx = "_" then some none else cx.toNat?.map some)
    let grows ← parseIds gr
    let sched ← parseSched sc
    pure { kind, beh, depth, pend, v, bump, bg := bg == "1", imp, pre, during, fimp, mfail, same,
           ctx, grows, sched }
  | _ => none

def parseName (s : String) : Option GName :=
  match s.toList with
  | ['w'] => some .who
  | ['x'] => some .nosuch
  | ['e'] => some .extra
  | c :: rest =>
    let num := (String.ofList rest).toNat?
    if c = 'h' then num.map .host
    else if c = 'a' then num.map .act
    else if c = 'o' then num.map .over
    else if c = 'f' then num.map .fill
    else if c = 'g' then num.map .pad
    else none
  | [] => none

def parseNames (s : String) : Option (List GName) :=
  if s = "_" then some [] else (s.splitOn ".").mapM parseName

def parseLay (s : String) : Option Lay :=
  if s = "_" then some {} else
  match (s.splitOn ".").mapM String.toNat? with
  | some [r, f, sw, p] => some { hset := r, fills := f, swap := sw == 1, pads := p }
  | _ => none

def showName : GName → String
  | .host i => "h" ++ toString i
  | .act s => "a" ++ toString s
  | .over s => "o" ++ toString s
  | .fill i => "f" ++ toString i
  | .pad i => "g" ++ toString i
  | .who => "w"
  | .nosuch => "x"
  | .extra => "e"

def showOwner : Owner → String
  | .main => "main"
  | .code j => "c" ++ toString j
  | .setup => "setup"

def showGot : Got → String
  | .noCode => "nocode"
  | .notFound => "notfound"
  | .val .unbound => "nil"
  | .val (.host i) => "host" ++ toString i
  | .val (.fn n o) => "fn:" ++ showName n ++ "@" ++ showOwner o
  | .val (.int v) => "int:" ++ toString v

def joinOr (xs : List String) : String := if xs.isEmpty then "-" else String.intercalate ";" xs

def parseLInv (s : String) : Option LInv :=
  match s.splitOn ":" with
  | [k, b, d, p, v, bu, bg, im, pre, du, cx, gr, ly, lp, lq, sc] => do
    let inv ← parseInv (String.intercalate ":" [k, b, d, p, v, bu, bg, im, pre, du, cx, gr, sc])
    let lay ← parseLay ly
    let lpre ← parseNames lp
    let lpost ← parseNames lq
    pure { inv, lay, pre := lpre, post := lpost }
  | _ => none

def showOutcome : Outcome → String
  | .ok v => "ok=" ++ toString v
  | .okHook => "ok=hook"
  | .errCanceled => "err=canceled"
  | .errRuntime => "err=runtime"
  | .errPanic => "err=panic"
  | .errOverflow => "err=overflow"
  | .errBusy => "err=busy"
  | .errImport => "err=import"

def b01 (b : Bool) : String := if b then "1" else "0"

def resFrom (s : St) (g : GSt) (k : Nat) : List LInv → List String
  | [] => []
  | x :: rest =>
    let inv := x.inv
    let lk := looked g s k x
    let g' := ginvoke g s k inv x.lay
    let pre := preState s k inv
    let r := invoke s k inv
    let line := String.intercalate ","
      [showOutcome r.2, toString r.1.sp, toString r.1.fp, b01 r.1.halt, b01 r.1.running,
       toString r.1.startCount, b01 pre.halt, showOutcome (specAt s k inv),
       b01 (staleFires s k inv), toString (leafFp s k inv), b01 (importFails s k inv),
       b01 (leafReached s k inv), b01 (modRan s k inv), toString (modCount r.1),
       b01 (dead s k inv), b01 (lostFires s k inv), toString (bodyState s k inv).cur,
       toString (curGen s k inv),
       joinOr (lk.pre.map showGot), joinOr (lk.post.map (fun p => showGot p.1)),
       joinOr (lk.post.map (fun p => match p.2 with | some x => showGot x | none => "~")),
       joinOr (lk.names.map showName), showName (callTarget g'),
       (match specNames s k inv x.lay with | some ns => joinOr (ns.map showName) | none => "~")]
    line :: resFrom r.1 g' (k + 1) rest

def parseInts (s : String) : Option (List Int) :=
  if s = "_" then some [] else (s.splitOn ".").mapM String.toInt?

def parseDVal (s : String) : Option DVal :=
  match s.splitOn "/" with
  | [i, c] => do
    let items ← parseInts i
    let ctr ← c.toInt?
    pure { items, ctr }
  | _ => none

def parseDOp (s : String) : Option DOp :=
  match s.toList with
  | ['d'] => some .dec
  | 'a' :: rest => (String.ofList rest).toInt?.map .app
  | _ => none

def parseDInv (s : String) : Option DInv :=
  match s.splitOn ":" with
  | [g, o] => do
    let give ← (if g = "_" then some none else (parseDVal g).map some)
    let ops ← (if o = "_" then some [] else (o.splitOn ".").mapM parseDOp)
    pure { give, ops }
  | _ => none

def showDVal (d : DVal) : String :=
  (if d.items.isEmpty then "_" else String.intercalate "." (d.items.map toString)) ++ "/" ++ toString d.ctr

def dataRes (s sd : DSt) : List DInv → List String
  | [] => []
  | v :: rest =>
    let r := dRunCode s v
    let rd := dRunCodeDirty sd v
    String.intercalate ":" [showDVal r.2, showDVal (dSpecAt s.input v), showDVal r.1.input, showDVal rd.2]
      :: dataRes r.1 rd.1 rest

def parseKWhat : String → Option KWhat
  | "b" => some .bump | "p" => some .peek | "c" => some .cl | "l" => some .items | _ => none

def parseKInv (s : String) : Option KInv :=
  match s.splitOn ":" with
  | ["r", c, p, sn, fr, fl] => do
    let c ← c.toNat?
    let p ← p.toInt?
    let sn ← sn.toNat?
    let fr ← (if fr = "_" then some none else
      match fr.splitOn "." with
      | [i, n] => do let i ← i.toNat?; let n ← n.toInt?; pure (some (i, n))
      | _ => none)
    pure (.runCode c p sn fr (fl == "1"))
  | ["k", w] => (parseKWhat w).map .keep
  | ["c", i, n] => do let i ← i.toNat?; let n ← n.toInt?; pure (.call i n)
  | ["f", w, n] => do let w ← parseKWhat w; let n ← n.toInt?; pure (.callFresh w n)
  | ["l", i] => i.toNat?.map .read
  | _ => none

def showInts (xs : List Int) : String := if xs.isEmpty then "_" else String.intercalate "." (xs.map toString)

def showKRes : KRes → String
  | .ok k x => "ok=" ++ toString k ++ "/" ++ toString x
  | .ranOk => "ran=ok" | .ranErr => "ran=err" | .ranPanic => "ran=panic"
  | .notLoaded => "notloaded" | .noCode => "nocode" | .kept => "kept" | .badTarget => "badtarget"
  | .listIs xs => "list=" ++ showInts xs

def keptRes (s : KSt) (sc : KCSt) : List KInv → List String
  | [] => []
  | v :: rest =>
    let r := kStep s v
    let rc := kcStep sc v
    String.intercalate ";" [showKRes r.2, showKRes (kSpecRes s v), showKRes rc.2,
      (match r.1.cur with | some g => toString g.x | none => "~"),
      (match r.1.cur with | some g => showInts g.items | none => "~")]
      :: keptRes r.1 rc.1 rest

def handle : List String → String
  | "kept" :: invs =>
    match invs.mapM parseKInv with
    | some h => String.intercalate "\t" ("ok" :: keptRes {} {} h)
    | none => "error\tbad-kept-history"
  | "data" :: d0 :: invs =>
    match parseDVal d0, invs.mapM parseDInv with
    | some d, some h => String.intercalate "\t" ("ok" :: dataRes (dNew d) (dNew d) h)
    | _, _ => "error\tbad-data-history"
  | "hist" :: invs =>
    match invs.mapM parseLInv with
    | some h => String.intercalate "\t" ("ok" :: resFrom (fresh 0) {} 0 h)
    | none => "error\tbad-invocation"
  | _ => "error\tunknown-request"

end Risor.C07
