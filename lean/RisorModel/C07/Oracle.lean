import RisorModel.Util
import RisorModel.C07.Model
/-!
Line-protocol front end of the C07 model (requests after the leading `C07` field).

  hist <inv> <inv> …      inv  = kind:beh:depth:pend:v:bump:bg:imp:pre:during:ctx:grows:sched
                          kind ∈ run|runcode|call, or `runcode@j` (re-supply the code object compiled
                          for invocation j)   beh ∈ normal|err|panic|overflow|selfcancel
                          bg ∈ 0|1   imp ∈ 0|1|2|3 (bit 0: import hostmod, bit 1: import fmod), with
                          the suffix `m` when the ending happens inside fmod's top-level code
                          pre, during = `_` (empty) or context ids joined by `.`
                          ctx = `_` (a context created for the invocation, id = its index) or the id of
                          the context OBJECT it is handed (shared by all invocations naming it)
                          grows = `_` or ids of the code objects the host compiles one more snippet
                          into before the invocation starts     sched ∈ e|f|l (when the watcher of an
                          already cancelled context stores halt: before the first poll | after the
                          first instruction | before RunCode's reset clears halt again - OBSERVED)
  reply: ok <res> <res> … res  = implOutcome,sp,fp,halt,running,startCount,haltBeforeStart,specOutcome,staleFires,fpAtLeaf,importFails,leafReached,moduleCodeRan,len(vm.modules),contextAlreadyCancelled,lostFires,executedGeneration,currentGeneration
-/
namespace Risor.C07

def parseKind : String → Option (Kind × Option Nat)
  | "run" => some (.run, none) | "runcode" => some (.runCode, none) | "call" => some (.call, none)
  | s => match s.splitOn "@" with
    | ["runcode", j] => j.toNat?.map (fun j => (.runCode, some j))
    | _ => none

/-- imp field: (import hostmod, import fmod, ending inside fmod's top-level code) -/
def parseImp : String → Option (Bool × Bool × Bool)
  | "0" => some (false, false, false) | "1" => some (true, false, false)
  | "2" => some (false, true, false) | "3" => some (true, true, false)
  | "2m" => some (false, true, true) | "3m" => some (true, true, true)
  | _ => none

def parseBeh : String → Option Beh
  | "normal" => some .normal | "err" => some .err | "panic" => some .panic
  | "overflow" => some .overflow | "selfcancel" => some .selfCancel | _ => none

def parseIds (s : String) : Option (List Nat) :=
  if s = "_" then some [] else (s.splitOn ".").mapM String.toNat?

def parseSched : String → Option Sched
  | "e" => some .early | "f" => some .first | "l" => some .lost | _ => none

def parseInv (s : String) : Option Inv :=
  match s.splitOn ":" with
  | [k, b, d, p, v, bu, bg, im, pre, du, cx, gr, sc] => do
    let (kind, same) ← parseKind k
    let (imp, fimp, mfail) ← parseImp im
    let beh ← parseBeh b
    let depth ← d.toNat?
    let pend ← p.toNat?
    let v ← v.toNat?
    let bump ← bu.toNat?
    let pre ← parseIds pre
    let during ← parseIds du
    let ctx ← (if cx = "_" then some none else cx.toNat?.map some)
    let grows ← parseIds gr
    let sched ← parseSched sc
    pure { kind, beh, depth, pend, v, bump, bg := bg == "1", imp, pre, during, fimp, mfail, same,
           ctx, grows, sched }
  | _ => none

def showOutcome : Outcome → String
  | .ok v => "ok=" ++ toString v
  | .okHook => "ok=hook"
  | .errCanceled => "err=canceled"
  | .errRuntime => "err=runtime"
  | .errPanic => "err=panic"
  | .errOverflow => "err=overflow"
  | .errBusy => "err=busy"
  | .errImport => "err=import"

def b01 (b : Bool) : String := if b then "1" else "0"

def resFrom (s : St) (k : Nat) : List Inv → List String
  | [] => []
  | inv :: rest =>
    let pre := preState s k inv
    let r := invoke s k inv
    let line := String.intercalate ","
      [showOutcome r.2, toString r.1.sp, toString r.1.fp, b01 r.1.halt, b01 r.1.running,
       toString r.1.startCount, b01 pre.halt, showOutcome (specAt s k inv),
       b01 (staleFires s k inv), toString (leafFp s k inv), b01 (importFails s k inv),
       b01 (leafReached s k inv), b01 (modRan s k inv), toString (modCount r.1),
       b01 (dead s k inv), b01 (lostFires s k inv), toString (bodyState s k inv).cur,
       toString (curGen s k inv)]
    line :: resFrom r.1 (k + 1) rest

def handle : List String → String
  | "hist" :: invs =>
    match invs.mapM parseInv with
    | some h => String.intercalate "\t" ("ok" :: resFrom (fresh 0) 0 h)
    | none => "error\tbad-invocation"
  | _ => "error\tunknown-request"

end Risor.C07
