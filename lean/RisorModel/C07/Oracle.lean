import RisorModel.Util
import RisorModel.C07.Model
/-!
Line-protocol front end of the C07 model (requests after the leading `C07` field).

  hist <inv> <inv> …      inv  = kind:beh:depth:pend:v:bump:bg:imp:pre:during
                          kind ∈ run|runcode|call   beh ∈ normal|err|panic|overflow|selfcancel
                          bg ∈ 0|1   pre, during = `_` (empty) or context ids joined by `.`
  reply: ok <res> <res> … res  = implOutcome,sp,fp,halt,running,startCount,haltBeforeStart,specOutcome,staleFires,fpAtLeaf,importFails
-/
namespace Risor.C07

def parseKind : String → Option Kind
  | "run" => some .run | "runcode" => some .runCode | "call" => some .call | _ => none

def parseBeh : String → Option Beh
  | "normal" => some .normal | "err" => some .err | "panic" => some .panic
  | "overflow" => some .overflow | "selfcancel" => some .selfCancel | _ => none

def parseIds (s : String) : Option (List Nat) :=
  if s = "_" then some [] else (s.splitOn ".").mapM String.toNat?

def parseInv (s : String) : Option Inv :=
  match s.splitOn ":" with
  | [k, b, d, p, v, bu, bg, im, pre, du] => do
    let kind ← parseKind k
    let beh ← parseBeh b
    let depth ← d.toNat?
    let pend ← p.toNat?
    let v ← v.toNat?
    let bump ← bu.toNat?
    let pre ← parseIds pre
    let during ← parseIds du
    pure { kind, beh, depth, pend, v, bump, bg := bg == "1", imp := im == "1", pre, during }
  | _ => none

def showOutcome : Outcome → String
  | .ok v => "ok=" ++ toString v
  | .okHook => "ok=hook"
  | .errCanceled => "err=canceled"
  | .errRuntime => "err=runtime"
  | .errPanic => "err=panic"
  | .errOverflow => "err=overflow"
  | .errBusy => "err=busy"
  | .errImport => "err=import"

def b01 (b : Bool) : String := if b then "1" else "0"

def resFrom (s : St) (k : Nat) : List Inv → List String
  | [] => []
  | inv :: rest =>
    let pre := preState s k inv
    let r := invoke s k inv
    let line := String.intercalate ","
      [showOutcome r.2, toString r.1.sp, toString r.1.fp, b01 r.1.halt, b01 r.1.running,
       toString r.1.startCount, b01 pre.halt, showOutcome (specOutcome inv s.acc),
       b01 (staleFires s k inv), toString (leafFp s k inv), b01 (importFails s k inv)]
    line :: resFrom r.1 (k + 1) rest

def handle : List String → String
  | "hist" :: invs =>
    match invs.mapM parseInv with
    | some h => String.intercalate "\t" ("ok" :: resFrom (fresh 0) 0 h)
    | none => "error\tbad-invocation"
  | _ => "error\tunknown-request"

end Risor.C07
