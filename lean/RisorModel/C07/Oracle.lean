import RisorModel.Util
/-! Line-protocol front end of the C07 model (stub until the model exists). -/
namespace Risor.C07

def handle : List String → String
  | _ => "error\tnot-implemented"

end Risor.C07
