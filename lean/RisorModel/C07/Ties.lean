import RisorModel.C07.Model
import RisorModel.Generated.C07
/-!
C07 ties: the structural facts regenerated from `vm/vm.go` by the extractor on this run
equal what the hand-written run-state model assumes.  A source edit to `start`, `stop`,
`resetForNewCode`, the reset condition, `eval`'s halt poll, `callFunction`'s deferred
unwinding or the recover/stop wrappers breaks exactly one named lemma.
-/
namespace Risor.C07
open Risor.Generated.C07

/-- `start` clears `halt` (model: `start` sets `halt := false`) and touches nothing else
    but `running` and `startCount` -/
theorem start_clears_halt_tie : startClearsHalt = true ∧ startAssigns = expectStartAssigns := by decide

/-- `start` arms exactly one watcher, only for contexts with a Done channel
    (model: `armed := if bg then armed else k :: armed`) -/
theorem start_arms_watcher_tie :
    startArmsWatcher = true ∧ watcherOnlyWithDoneChan = true ∧ startGoStmts = 1 := by decide

/-- `stop` only clears `running` and calls nothing: the watcher is never disarmed
    (model: `armed` survives the invocation) -/
theorem stop_never_disarms_tie :
    stopAssigns = expectStopAssigns ∧ stopCalls = expectStopCalls := by decide

/-- `resetForNewCode` resets sp, fp, ip, halt, the code caches AND `modules`
    (model: `reset`), under the condition `resetState && vm.startCount > 1` (model: `enter`) -/
theorem reset_tie :
    resetAssigns = expectResetAssigns ∧ resetCondition = expectResetCondition := by decide

/-- `Run` resumes at `vm.ip` (the harness drives it with the REPL protocol) -/
theorem run_resumes_at_ip_tie : runResumesAtIP = true := by decide

/-- `eval` polls `halt` and returns `ctx.Err()` of the CURRENT context (model: `leafOutcome`) -/
theorem poll_returns_ctx_err_tie : pollReturnsCtxErr = true := by decide

/-- every way out of a call runs the deferred `resumeFrame`, and Run/RunCode/Call recover
    panics and always reach `stop` (model: `core` restores `fp`, `invoke` clears `running`) -/
theorem unwind_and_stop_tie :
    callFunctionDefersResume = true ∧ runRecoversAndStops = true ∧ callRecoversAndStops = true := by
  decide

/-- modules supplied as globals live in `vm.modules` (model: `mods`, initially true) -/
theorem global_modules_tie : applyOptionsRegistersModules = true := by decide

/-- `Get` and `GlobalNames` assign no field of the VM and read only the active code: a look-up
    leaves no trace and its answer depends on nothing but the active code (model: `get`,
    `globalNames` are functions of `activeWrap`; `lookups_leave_no_trace`) -/
theorem get_is_read_only_tie :
    getAssigns = expectGetAssigns ∧ globalNamesAssigns = expectGetAssigns ∧
    getReads = expectGetReads ∧ globalNamesReads = expectGetReads := by decide

/-- the fields of `VirtualMachine` are exactly the ones the model accounts for
    (`expectVmFields`): a new field is per-VM storage the model does not know of -/
theorem vm_fields_tie : vmFields = expectVmFields := by decide

theorem limits_tie :
    maxFrameDepth = expectMaxFrameDepth ∧ maxStackDepth = expectMaxStackDepth := by decide

end Risor.C07
