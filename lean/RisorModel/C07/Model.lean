/-!
C07 — run-state model of a reused `vm.VirtualMachine` (vm/vm.go), core Lean only.

What is modelled (the code AS IT IS, defects included):

* the run-state shared by every invocation on one VM: `halt`, `running`, `startCount`,
  the context watcher goroutines spawned by `start()` (`armed`; `stop()` never disarms
  them), and the storage that survives an invocation: `sp`, `fp`, whether code is active;
* the world outside the VM: which contexts have been cancelled (`cancelled`) and the one
  mutable host global the scripts use (`acc`, the length of a host list);
* the three entry points `Run`, `RunCode`, `Call` as transitions: `start` (clears `halt`,
  arms a watcher unless the context has no Done channel), `resetForNewCode` for `RunCode`
  when `startCount > 1`, descent through `depth+1` call frames, the leaf where the script
  calls back into the host (the only place where contexts are cancelled *during* a run),
  the poll of `halt` at the next instruction of every enclosing `eval`
  (`return ctx.Err()` of the CURRENT context), the deferred `resumeFrame` unwinding on
  every way out (normal, error, Go panic, frame overflow), and `stop`.

* the import cache `vm.modules`: the modules supplied as globals (`mods`, dropped by
  `resetForNewCode`) and one FILE module `fmod` that the VM's importer loads (`fmod`): its
  top-level code is executed by `importModule` in a frame of its own when the module is not
  cached, it calls back into the host, and the invocation may END there (`mfail`: runtime
  error, Go panic, frame overflow, cancellation of the invocation's own context) - the
  module is cached only after its code ran to the end (`core`, `modEnd`);
* `same`: `RunCode` may be handed the very `*compiler.Code` object of an earlier invocation.
  `resetForNewCode` forgets `loadedCode`, so no transition reads the field
  (`C07_same_code_irrelevant`); the harness does re-run the same Go object and compares.

* context OBJECTS and code OBJECTS have an identity and may be REUSED: `ctx := some c` hands
  the invocation the context object `c` (several invocations may name the same one; it may be
  cancelled already - `start` still clears `halt` and arms a NEW watcher, which fires at once);
  `same := some j` re-supplies code object `j`, into which the host may have compiled further
  snippets in the meantime (`grows`: incremental compilation, `compiler.New` + `Compile`);
  `vm.loadedCode` (`loaded`: code object ↦ the generation its wrapper is a snapshot of) is
  what `RunCode` consults before it wraps a code object, and what `resetForNewCode` forgets;
* Go scheduling where the code leaves the order open (`sched`): a watcher armed for an already
  cancelled context stores `halt` before the first poll, after the first instruction, or - for
  `RunCode` on a used VM - before `resetForNewCode` clears `halt` again (then nothing is left
  to stop the run).

* what the host reads from the VM BY NAME between invocations (`vm.Get`, `vm.GlobalNames`, the
  function a `Call` fetches): code objects lay their globals out differently (`Lay`), the
  wrappers hold symbol table and `Globals` array in slot order (`GSt`), `get` scans the ACTIVE
  table - see the section "Global names" below; `LInv` adds the layout and the names looked up
  before and after an invocation to `Inv`.

A history is a list of invocations.  Contexts and code objects are named by natural numbers;
the context / the code object created for the `k`-th invocation (0-based) has id `k`.
`pre` names contexts cancelled before the invocation starts (ANY context: of an earlier
invocation, the invocation's own - it then starts with a cancelled context -, or one that is
used later or never); `during` names OTHER contexts cancelled by the host callback while the
invocation runs (an entry naming the invocation's own context is ignored: cancelling the own
context mid-run is the ending `selfCancel`); `grows` names the code objects the host compiles
one more snippet into before the invocation starts.
-/
namespace Risor.C07

inductive Kind where
  | run | runCode | call
  deriving DecidableEq, Repr, Inhabited

/-- how the script of an invocation behaves at its leaf (after the host callback) -/
inductive Beh where
  | normal      -- returns `v + 1000 * len(acc)`
  | err         -- runtime error (`int + string`) at frame depth `depth+1`
  | panic       -- a host builtin panics (Go panic, recovered by Run/RunCode/Call)
  | overflow    -- unbounded recursion: `vm.frames[1024]` index panic, recovered
  | selfCancel  -- the host callback cancels the invocation's OWN context
  deriving DecidableEq, Repr, Inhabited

/-- when the watcher that `start()` arms for an ALREADY CANCELLED context stores `halt`
    (consulted for such invocations only; Go scheduling decides) -/
inductive Sched where
  | early   -- before the first poll of `eval`: no instruction is executed
  | first   -- after the first instruction was dispatched (the harness holds the run there until the watcher has exited)
  | lost    -- RunCode on a used VM only: before `resetForNewCode` stores `halt = 0` again - the store is wiped and no watcher is left
  deriving DecidableEq, Repr, Inhabited

structure Inv where
  kind : Kind
  beh : Beh
  depth : Nat          -- script frames above the leaf frame
  pend : Nat           -- operands pending on the stack at depth 0 (`[1, 2, act(…)]`); unused by Call
  v : Nat              -- the value the invocation computes with
  bump : Nat           -- how many times the script appends to the host global `acc`
  bg : Bool            -- context.Background(): no Done channel, no watcher, cannot be cancelled
  imp : Bool           -- the script executes `import hostmod` (a module supplied as a global) first
  pre : List Nat       -- earlier contexts cancelled (watcher settled) before the invocation starts
  during : List Nat    -- earlier contexts cancelled by the host callback while it runs
  fimp : Bool := false -- the script then executes `import fmod` (a module the VM's importer loads from a file)
  mfail : Bool := false -- the ending `beh` happens INSIDE fmod's top-level code (when that code is executed)
  same : Option Nat := none -- RunCode re-supplies the *compiler.Code object compiled for that earlier invocation
  ctx : Option Nat := none  -- the context OBJECT handed to the invocation: `none` = one created for it (id = its index), `some c` = the context with id `c` (shared with every invocation that names `c`)
  grows : List Nat := []    -- code objects into which the host compiles one more snippet before the invocation starts
  sched : Sched := .first   -- see `Sched`
  deriving DecidableEq, Repr, Inhabited

inductive Outcome where
  | ok (v : Nat)       -- success with an integer result
  | okHook             -- "success" whose value is the host callback's return value (-7): a cut-short run
  | errCanceled        -- context.Canceled
  | errRuntime         -- risor type error
  | errPanic           -- "panic: boom"
  | errOverflow        -- "panic: runtime error: index out of range [1024] …"
  | errBusy            -- "vm is already running"
  | errImport          -- "imports are disabled"
  deriving DecidableEq, Repr, Inhabited

/-- state of one VM plus the world it shares with its host -/
structure St where
  halt : Bool := false
  running : Bool := false
  startCount : Nat := 0
  armed : List Nat := []        -- contexts whose watcher goroutine is still waiting on Done
  cancelled : List Nat := []    -- contexts that have been cancelled
  sp : Int := -1
  fp : Nat := 0
  hasCode : Bool := false       -- some code is active (`vm.activeCode != nil`)
  mods : Bool := true           -- the modules supplied as globals are in the import cache `vm.modules`
  fmod : Bool := false          -- the file module `fmod` is in the import cache `vm.modules` (fully initialised)
  acc : Nat := 0                -- len(acc), the host global
  grown : List Nat := []        -- world: one entry per snippet compiled into a code object after its creation (generation of `j` = occurrences of `j`)
  loaded : List (Nat × Nat) := []  -- `vm.loadedCode`, entry codes only: code object ↦ generation its wrapper is a snapshot of
  cur : Nat := 0                -- number of growth snippets in the snapshot the active RunCode executes (0 for Run/Call)
  icache : Bool := false        -- the VM's importer has parsed and compiled the file module before (`LocalImporter.codeCache`; survives `resetForNewCode`)
  gone : Bool := false          -- the context of the (last) started invocation was already cancelled when it started: its `Err()` is non-nil throughout
  deriving DecidableEq, Repr, Inhabited

def fresh (acc : Nat) : St := { acc := acc }

/-- `cancel(ctx_i)`, and the harness waits until the watchers armed for it (one per invocation
    that was started with this context object) have stored `halt := 1`.  A watcher fires once. -/
def cancel (s : St) (i : Nat) : St :=
  if s.cancelled.contains i then s
  else
    let s := { s with cancelled := i :: s.cancelled }
    if s.armed.contains i then { s with halt := true, armed := s.armed.filter (· != i) } else s

/-- the context object handed to invocation `k` -/
def ctxOf (k : Nat) (inv : Inv) : Nat := inv.ctx.getD k

/-- the code object handed to invocation `k` (RunCode) -/
def codeOf (k : Nat) (inv : Inv) : Nat := inv.same.getD k

/-- `during` names OTHER contexts (the own context is cancelled mid-run by `selfCancel`) -/
def others (c : Nat) (is : List Nat) : List Nat := is.filter (· != c)

/-- current generation of code object `j`: how many snippets were compiled into it since its creation -/
def genOf (s : St) (j : Nat) : Nat := s.grown.count j

def cancelAll (s : St) (is : List Nat) : St := is.foldl cancel s

/-- `vm.start(ctx)` (the `running` check is done by the caller of this function) -/
def start (s : St) (k : Nat) (bg : Bool) : St :=
  { s with running := true, startCount := s.startCount + 1, halt := false,
           armed := if bg then s.armed else k :: s.armed }

/-- `resetForNewCode` -/
def reset (s : St) : St :=
  { s with sp := -1, fp := 0, halt := false, mods := false, fmod := false, loaded := [] }

/-- result of the leaf when no halt is pending; `g` = number of growth snippets the executed
    code contains after the call (each evaluates `v + 1000*len(acc) + 1000000*i`; the last one
    is the result) -/
def behOutcome (b : Beh) (v acc : Nat) (g : Nat := 0) : Outcome :=
  match b with
  | .normal => .ok (v + 1000 * acc + 1000000 * g)
  | .selfCancel => .ok (v + 1000 * acc + 1000000 * g)   -- only reached when no watcher can stop the run
  | .err => .errRuntime
  | .panic => .errPanic
  | .overflow => .errOverflow

/-- stack slots the invocation leaves above its base.  Since the `fix:` commit in vm/vm.go
    (`callFunction` drops the leftovers of a call that ends in an error) a cancelled or failing
    call leaves nothing behind; a cut-short "success" (`okHook`) still carries the abandoned
    frame's top down as a "frame result" (`resumeFrame`).  Every growth snippet of the executed
    code (`g` of them) is an expression statement of its own and leaves its value. -/
def spDelta (kind : Kind) (pend : Nat) (g : Nat) (o : Outcome) : Int :=
  match kind, o with
  | .call, _ => 0
  | _, .ok _ => 1 + g
  | _, .okHook => pend + 1
  | _, _ => pend

/-- a `Call` on a VM that has no active code first loads the definitions with
    `RunCode(context.Background(), defs)` (what `risor.Call` does) -/
def setup (s : St) : St :=
  if s.hasCode then s
  else
    -- on a VM that has been started before (its last Run/RunCode was stopped before the
    -- definitions were executed) this RunCode resets the VM like any other
    { s with startCount := s.startCount + 1, halt := false, sp := 0, fp := 0, hasCode := true,
             mods := s.mods && s.startCount == 0, fmod := s.fmod && s.startCount == 0 }

/-- what happens in the world before the invocation starts: the host compiles further
    snippets into code objects, contexts are cancelled (their watchers fire) -/
def events (s : St) (inv : Inv) : St :=
  cancelAll { s with grown := inv.grows ++ s.grown } inv.pre

/-- state of the VM just before `start` of invocation `k` (after the `grows`/`pre` events) -/
def preState (s : St) (k : Nat) (inv : Inv) : St := events s inv

/-- the events placed before the invocation, and `Call`'s loading of definitions -/
def prep (s : St) (k : Nat) (inv : Inv) : St :=
  let s := preState s k inv
  if inv.kind = .call then setup s else s

/-- the invocation is handed a context that is ALREADY cancelled when it starts -/
def dead (s : St) (k : Nat) (inv : Inv) : Bool :=
  !inv.bg && (preState s k inv).cancelled.contains (ctxOf k inv)

/-- the schedule in which the cancellation of a dead context is lost: `RunCode` on a VM that
    has been started before calls `start` (the watcher is launched, stores `halt = 1`, exits)
    and THEN `resetForNewCode` (`halt = 0`) -/
def loses (s : St) (k : Nat) (inv : Inv) : Bool :=
  inv.sched == .lost && inv.kind == .runCode && decide (0 < s.startCount)

/-- the run is stopped by its own, already cancelled, context before it gets anywhere -/
def cut (s : St) (k : Nat) (inv : Inv) : Bool := dead s k inv && !loses s k inv

/-- the watcher armed for a dead context exits at once: for the rest of the invocation there is
    no watcher for its context, as with a context that has no Done channel -/
def eff (s : St) (k : Nat) (inv : Inv) : Inv :=
  if dead s k inv then { inv with bg := true } else inv

/-- `start(ctx)`, followed by `resetForNewCode` when `RunCode` runs on a VM that has been
    started before, followed by `RunCode`'s look-up of the code object in `vm.loadedCode`: an
    existing wrapper (a snapshot of the instructions at the time it was made) is reused AS IS,
    otherwise the code object is wrapped now -/
def enter (s : St) (k : Nat) (inv : Inv) : St :=
  -- a watcher armed for an already cancelled context fires at once and exits: it never stays armed
  let d := !inv.bg && s.cancelled.contains (ctxOf k inv)
  let s : St := { start s (ctxOf k inv) (inv.bg || d) with hasCode := true, gone := d }
  let s : St := if inv.kind = .runCode ∧ s.startCount > 1 then reset s else s
  if inv.kind = .runCode then
    let g := (s.loaded.lookup (codeOf k inv)).getD (genOf s (codeOf k inv))
    { s with cur := g, loaded := (codeOf k inv, g) :: s.loaded }
  else
    -- `Run` resumes the main code: what the previous runs left on the operand stack is dropped first
    -- (fix: drop the previous result from the stack when Run resumes the main code); `Call` keeps it
    { s with cur := 0, sp := if inv.kind = .run then -1 else s.sp }

/-- the script reaches its leaf: `depth+1` frames are active, the appends to the host global
    are done, the host callback cancels what it was told to cancel (other contexts and,
    for `selfCancel`, the invocation's own context `c`) and waits for the watchers to fire -/
def leaf (s : St) (c : Nat) (inv : Inv) : St :=
  let s := { s with fp := s.fp + inv.depth + 1, acc := s.acc + inv.bump }
  let s := cancelAll s (others c inv.during)
  if inv.beh = .selfCancel ∧ inv.bg = false then cancel s c else s

/-- what the next instruction after the host callback does: every enclosing `eval` polls
    `halt` and returns `ctx.Err()` of ITS (the current) context `c`; otherwise the script goes
    on (and the growth snippets of the executed snapshot follow) -/
def leafOutcome (s : St) (c : Nat) (inv : Inv) : Outcome :=
  if s.halt then (if s.gone || (!inv.bg && s.cancelled.contains c) then .errCanceled else .okHook)
  else behOutcome inv.beh inv.v s.acc s.cur

/-- the invocation cancels its own context (possible only if a watcher is armed for it) -/
def ownCancel (inv : Inv) : Bool := inv.beh == .selfCancel && !inv.bg

/-- `import fmod` executes the module's top-level code: the module is not in `vm.modules`
    (`importModule` looks there first; the importer returns a new Module object otherwise) -/
def modRuns (s : St) (inv : Inv) : Bool := inv.fimp && !s.fmod

/-- the invocation ENDS while fmod's top-level code is executing: that code runs, the
    invocation was told to end there (`mfail`), and its ending is one that ends a run -/
def modEnds (s : St) (inv : Inv) : Bool :=
  modRuns s inv && inv.mfail &&
    (ownCancel inv || inv.beh == .err || inv.beh == .panic || inv.beh == .overflow)

/-- the slot that executing a module's top-level code USED to leave in the importing frame
    (`importModule`'s `resumeFrame` carried the module frame's top of stack down as a "frame
    result"; an ending that skipped the importing function's return - a Go panic, or the
    cut-short "success" - left it on the stack).  Repaired in risor (`fix: drop what a module's
    code leaves on the stack when it is imported`): `importModule` now pops down to the importer's
    stack pointer on every way out, so nothing is left.  `preFixModResidue` keeps the old amount. -/
def preFixModResidue (s : St) (inv : Inv) (o : Outcome) : Int :=
  if modRuns s inv then
    (match o with
     | .okHook => 1 | .errPanic => 1 | .errOverflow => 1 | _ => 0)
  else 0

def modResidue (_s : St) (_inv : Inv) (_o : Outcome) : Int := 0

/-- the run ends inside the module's top-level code (the module's host callback cancels the
    invocation's own context, or the module code fails): `importModule` returns before
    `vm.modules[name] = module`, so NOTHING is cached; its deferred `resumeFrame` restores
    fp/sp; the appends and the leaf's host callback (hence the `during` cancellations) are
    never reached -/
def modEnd (s : St) (c : Nat) (inv : Inv) : St × Outcome :=
  let s' := if ownCancel inv then cancel s c else s
  let o := if ownCancel inv then Outcome.errCanceled else behOutcome inv.beh inv.v s.acc s.cur
  ({ s' with sp := s'.sp + spDelta inv.kind inv.pend s.cur o, icache := true }, o)

/-- the body of an invocation between `start`(+reset, +load) and `stop`; `c` = its context -/
def core (s : St) (c : Nat) (inv : Inv) : St × Outcome :=
  if inv.imp ∧ s.mods = false then
    -- `import hostmod` in the leaf frame: not in vm.modules any more and the importer does not
    -- know it: "imports are disabled" / "module not found"; the appends and the host callback
    -- are never reached
    ({ s with sp := s.sp + spDelta inv.kind inv.pend s.cur .errImport }, .errImport)
  else if s.gone ∧ modRuns s inv = true ∧ s.icache = false then
    -- `import fmod` with a context that is already cancelled (reached only when the reset wiped
    -- the watcher's store): the importer hands the invocation's context to the parser, which
    -- gives up with its error before any module code runs - unless the importer has compiled
    -- the file before (its own cache)
    ({ s with sp := s.sp + spDelta inv.kind inv.pend s.cur .errCanceled }, .errCanceled)
  else if modEnds s inv then modEnd s c inv
  else
    let l := leaf s c inv
    let o := leafOutcome l c inv
    -- the deferred resumeFrame calls restore fp on every way out; sp as computed by spDelta;
    -- a module whose top-level code ran to its end is cached, however the invocation ends later
    ({ l with fp := l.fp - (inv.depth + 1),
              sp := s.sp + spDelta inv.kind inv.pend s.cur o + modResidue s inv o,
              fmod := s.fmod || inv.fimp, icache := s.icache || modRuns s inv }, o)

/-- state in which the body of invocation `k` starts -/
def bodyState (s : St) (k : Nat) (inv : Inv) : St := enter (prep s k inv) k inv

/-- what a run that its own dead context stops at once leaves on the stack: nothing, or the
    value the first instruction of a Run/RunCode script pushed (a failing `Call` drops its
    leftovers) -/
def cutResidue (inv : Inv) : Int :=
  if inv.kind = .call then 0 else if inv.sched = .early then 0 else 1

/-- the VM after a run that its own dead context stopped at once: the watcher has stored
    `halt`, the next poll returned `ctx.Err()` -/
def cutState (b : St) (inv : Inv) : St :=
  -- a Run/RunCode that is stopped there has not executed its function definitions: a later
  -- `Call` has to load definitions first (`setup`)
  { b with halt := true, running := false, sp := b.sp + cutResidue inv,
           hasCode := inv.kind == .call }

/-- one invocation on the (possibly reused) VM -/
def invoke (s : St) (k : Nat) (inv : Inv) : St × Outcome :=
  let p := prep s k inv
  if p.running then (p, .errBusy)
  else
    let b := bodyState s k inv
    if cut s k inv then
      (cutState b inv, .errCanceled)
    else
      let r := core b (ctxOf k inv) (eff s k inv)
      ({ r.1 with running := false }, r.2)

/-- the script reaches its leaf (the appends and the host callback `hook()`) -/
def leafReached (s : St) (k : Nat) (inv : Inv) : Bool :=
  !cut s k inv && !(inv.imp && !(bodyState s k inv).mods) &&
    !(dead s k inv && modRuns (bodyState s k inv) inv && !(bodyState s k inv).icache) &&
    !modEnds (bodyState s k inv) (eff s k inv)

/-- fmod's top-level code is executed by this invocation (observed: the module's own host
    callback is called) -/
def modRan (s : St) (k : Nat) (inv : Inv) : Bool :=
  !cut s k inv && !(inv.imp && !(bodyState s k inv).mods) &&
    !(dead s k inv && !(bodyState s k inv).icache) && modRuns (bodyState s k inv) inv

/-- `len(vm.modules)` (observed through the `verif` hook) -/
def modCount (s : St) : Nat := (if s.mods then 1 else 0) + (if s.fmod then 1 else 0)

/-- frame pointer while the host callback runs (observed through the `verif` hook) -/
def leafFp (s : St) (k : Nat) (inv : Inv) : Nat :=
  (leaf (bodyState s k inv) (ctxOf k inv) (eff s k inv)).fp

/-- run a history from state `s`, the first invocation having index `k`; returns every
    intermediate state and outcome -/
def runFrom (s : St) (k : Nat) : List Inv → List (St × Outcome)
  | [] => []
  | inv :: rest => invoke s k inv :: runFrom (invoke s k inv).1 (k + 1) rest

def run (h : List Inv) : List (St × Outcome) := runFrom (fresh 0) 0 h

/-- **Spec**: what the property demands of invocation `inv` when the host global has the
    value `acc`, the code object it is handed contains `g` growth snippets NOW and its context
    is (`dead`) or is not cancelled already: the outcome of that invocation alone, on a fresh
    VM, where nothing that concerns another invocation's context exists. -/
def specOutcome (inv : Inv) (acc : Nat) (g : Nat) (dead : Bool) : Outcome :=
  if dead || ownCancel inv then .errCanceled else behOutcome inv.beh inv.v (acc + inv.bump) g

/-- the generation of the code object handed to invocation `k`, as it is when the invocation
    starts (only `RunCode` is handed a code object) -/
def curGen (s : St) (k : Nat) (inv : Inv) : Nat :=
  if inv.kind = .runCode then genOf (preState s k inv) (codeOf k inv) else 0

/-- the Spec of invocation `k` in the world `s` (reads only the world: the host global, the
    code objects' contents, which contexts are cancelled) -/
def specAt (s : St) (k : Nat) (inv : Inv) : Outcome :=
  specOutcome inv s.acc (curGen s k inv) (dead s k inv)

/-- the Impl on a fresh VM whose host global has the value `acc`, handed a code object with
    `g` growth snippets and a context that is (`d`) or is not cancelled already, with no events
    that concern other contexts (proved equal to the Spec in Props) -/
def freshWorld (inv : Inv) (k acc : Nat) (g : Nat) (d : Bool) : St :=
  { fresh acc with cancelled := if d then [ctxOf k inv] else [],
                   grown := List.replicate g (codeOf k inv) }

def freshOutcome (inv : Inv) (k acc : Nat) (g : Nat) (d : Bool) : Outcome :=
  (invoke (freshWorld inv k acc g d) k { inv with pre := [], during := [], grows := [] }).2

/-- guard of the finding `C07-reset-drops-global-modules`: the invocation imports a module
    that was supplied as a global after some `RunCode` has reset `vm.modules` -/
def importFails (s : St) (k : Nat) (inv : Inv) : Bool :=
  !cut s k inv && inv.imp && !(bodyState s k inv).mods

/-- will cancelling context `i` in state `s` make a watcher of this VM fire? -/
def fires (s : St) (i : Nat) : Bool := s.armed.contains i && !s.cancelled.contains i

/-- guard of the finding `C07-stale-context-watcher`: a watcher armed for ANOTHER context (by
    an earlier invocation) fires while invocation `k` executes from state `s` (the `during`
    cancellations are made by the leaf's host callback, so the leaf must be reached) -/
def staleFires (s : St) (k : Nat) (inv : Inv) : Bool :=
  !cut s k inv && !importFails s k inv &&
    !(dead s k inv && modRuns (bodyState s k inv) inv && !(bodyState s k inv).icache) &&
    !modEnds (bodyState s k inv) (eff s k inv) &&
    (others (ctxOf k inv) inv.during).any (fires (bodyState s k inv))

/-- a run that lost the cancellation of its context is stopped after all, by the importer, when
    it imports a file module that neither the VM nor its importer has cached -/
def lostImport (s : St) (k : Nat) (inv : Inv) : Bool :=
  !cut s k inv && !importFails s k inv &&
    (dead s k inv && modRuns (bodyState s k inv) inv && !(bodyState s k inv).icache)

/-- guard of the finding `C07-runcode-reset-loses-cancellation`: `RunCode` on a used VM is
    handed an already cancelled context and the watcher's store is wiped by the reset -/
def lostFires (s : St) (k : Nat) (inv : Inv) : Bool := dead s k inv && loses s k inv

/-- exactly the invocations whose outcome on the reused VM differs from the Spec -/
def harms (s : St) (k : Nat) (inv : Inv) : Bool :=
  importFails s k inv ||
    (if lostFires s k inv then !(staleFires s k inv || lostImport s k inv)
     else staleFires s k inv && !ownCancel inv)

/-- (outcome on the reused VM, outcome the Spec demands) of every invocation of a history -/
def pairsFrom (s : St) (k : Nat) : List Inv → List (Outcome × Outcome)
  | [] => []
  | inv :: rest =>
    ((invoke s k inv).2, specAt s k inv) :: pairsFrom (invoke s k inv).1 (k + 1) rest

def pairs (h : List Inv) : List (Outcome × Outcome) := pairsFrom (fresh 0) 0 h

def anyFrom (f : St → Nat → Inv → Bool) (s : St) (k : Nat) : List Inv → Bool
  | [] => false
  | inv :: rest => f s k inv || anyFrom f (invoke s k inv).1 (k + 1) rest

/-- somewhere in the history a watcher of another, earlier used, context fires during a later invocation -/
def staleCancel (h : List Inv) : Bool := anyFrom staleFires (fresh 0) 0 h
/-- somewhere in the history a global module is imported after a reset -/
def importAfterReset (h : List Inv) : Bool := anyFrom importFails (fresh 0) 0 h
/-- somewhere in the history the reset of a `RunCode` wipes the cancellation of its context -/
def lostCancel (h : List Inv) : Bool := anyFrom lostFires (fresh 0) 0 h
/-- the exact guard: some invocation of the history is harmed -/
def harmed (h : List Inv) : Bool := anyFrom harms (fresh 0) 0 h

/-- (generation of the snapshot a `RunCode` executes, generation of the code object when the
    invocation starts) for every `RunCode` of a history that is not stopped at once -/
def gensFrom (s : St) (k : Nat) : List Inv → List (Nat × Nat)
  | [] => []
  | inv :: rest =>
    (if inv.kind = .runCode then [((bodyState s k inv).cur, curGen s k inv)] else []) ++
      gensFrom (invoke s k inv).1 (k + 1) rest

/-- outcomes of the invocations of a history that are handed an already cancelled context -/
def deadOutcomesFrom (s : St) (k : Nat) : List Inv → List Outcome
  | [] => []
  | inv :: rest =>
    (if dead s k inv then [(invoke s k inv).2] else []) ++
      deadOutcomesFrom (invoke s k inv).1 (k + 1) rest


/-! ### Frame-level refinement of the unwinding

`leafOutcome` summarises what reaches Run/RunCode/Call.  The definitions below spell out how
that signal travels through `d` enclosing script frames (`callFunction` → `callObject` →
the caller's `eval`), so that "the depth does not matter" is a theorem
(`C07_depth_irrelevant`) and not an assumption. -/

/-- what a frame hands to its caller -/
inductive Sig where
  | val (hook : Bool) (v : Nat)   -- a value on top of the stack (`hook`: the host callback's value)
  | err (o : Outcome)             -- `eval` returned an error
  | pan (o : Outcome)             -- a Go panic is unwinding (deferred `resumeFrame`s run)
  deriving DecidableEq, Repr

/-- the leaf frame after the host callback returned -/
def leafSig (halt ownCancelled : Bool) (b : Beh) (v acc : Nat) (g : Nat) : Sig :=
  if halt then (if ownCancelled then .err .errCanceled else .val true 0)
  else match b with
    | .normal => .val false (v + 1000 * acc + 1000000 * g)
    | .selfCancel => .val false (v + 1000 * acc + 1000000 * g)
    | .err => .err .errRuntime
    | .panic => .pan .errPanic
    | .overflow => .pan .errOverflow

/-- one enclosing script frame: an error or panic is handed on unchanged; a value is pushed
    and the frame's next instruction polls `halt` (returning `ctx.Err()`, i.e. nil = "success"
    with whatever is on top of the stack when the current context is live) -/
def frameStep (halt ownCancelled : Bool) : Sig → Sig
  | .val h v => if halt then (if ownCancelled then .err .errCanceled else .val h v) else .val h v
  | s => s

def unwind (halt ownCancelled : Bool) : Nat → Sig → Sig
  | 0, s => s
  | n + 1, s => unwind halt ownCancelled n (frameStep halt ownCancelled s)

/-- what Run/RunCode/Call report for the signal that reaches them -/
def sigOutcome : Sig → Outcome
  | .val true _ => .okHook
  | .val false v => .ok v
  | .err o => o
  | .pan o => o

/-! ### Global names: what the host reads from a reused VM BY NAME

`vm.Get(name)` and `vm.GlobalNames()` answer from the ACTIVE code: `Get` scans the symbol table
of `vm.activeCode` (slot order, bounded by the length of its `Globals` array) for the name and
returns `Globals[slot]`.  `risor.Call` is `RunCode` + `Get(name)` + `Call`, and hosts that reuse a
VM do the same by hand.  Code objects lay their globals out differently (the order of the names
the host supplies, how many definitions precede a name, the order of the definitions), so ONE
name lives in DIFFERENT slots of the code objects a reused VM runs one after the other.

The layer below models the storage these look-ups read, as it is in vm/vm.go and vm/code.go:
the wrapper (`Wrap`: symbol table zipped with the `Globals` array, in slot order) of the REPL
main code (`vm.loadedCode[main]`, kept and re-based by `reloadCode` on every `Run`) and of the
code object handed to the last `RunCode` (`risor.Call`'s / the harness's definitions for a `Call`
on a VM without code included), which of the two is active, `resetForNewCode` forgetting both,
`loadRootCode` filling the host's values in by name, and the definitions of the script storing
their values in the slot the compiler gave the name.  It is driven by the run-state model
(`St`): whether the reset happens, whether `Call` has to load definitions, whether the run was
stopped before it executed its definitions (`cut`). -/

/-- a global NAME (the harness maps the strings) -/
inductive GName where
  | host (i : Nat)   -- the i-th name of the host's globals, sorted as the compiler sorts them (acc, boom, hook, hostmod, len, modhook, p)
  | extra            -- `aaa`: a global name some code objects are compiled with (it sorts before all others) although the host supplies no such global
  | act (s : Nat)    -- `act` (s = 0: code objects handed to RunCode / Call's definitions) or `act_k` (s = k+1: REPL snippet of invocation k)
  | over (s : Nat)   -- `over` / `over_k`
  | fill (i : Nat)   -- `f<i>`: a function defined before act/over
  | pad (i : Nat)    -- `g<i>`: a variable defined before `who`
  | who              -- `who`: a variable holding the identity of the code object
  | nosuch           -- a name no code object defines
  deriving DecidableEq, Repr, Inhabited

/-- which root code object a wrapper (and the functions made from its constants) belongs to -/
inductive Owner where
  | main             -- the REPL main code `Run` executes
  | code (j : Nat)   -- the code object compiled for RunCode invocation `j`
  | setup            -- the definitions loaded for a `Call` on a VM without code
  deriving DecidableEq, Repr, Inhabited

/-- what a slot of a `Globals` array holds -/
inductive GVal where
  | unbound                       -- Go nil: the definition has not been executed
  | host (i : Nat)                -- the object the host supplied under its i-th name
  | fn (n : GName) (o : Owner)    -- the function named `n` of code object `o`
  | int (v : Nat)
  deriving DecidableEq, Repr, Inhabited

/-- the answer of `vm.Get` -/
inductive Got where
  | val (v : GVal) | notFound | noCode
  deriving DecidableEq, Repr, Inhabited

/-- how a code object lays out its globals: the global names it was compiled with (the compiler
    sorts them; `hset` bit 0: the additional name `aaa`, which moves every other name up one
    slot; bit 1: without `modhook`; bit 2: without `hostmod`), then the functions (hoisted by
    the compiler, in source order: `fills` fillers, then over/act in either order), then the
    variables (`pads` of them, then `who`) -/
structure Lay where
  hset : Nat := 0
  fills : Nat := 0
  swap : Bool := false
  pads : Nat := 0
  deriving DecidableEq, Repr, Inhabited

def nHost : Nat := 7

def hostTbl (m : Nat) : List GName :=
  (if m % 2 = 1 then [.extra] else []) ++
    ((List.range nHost).filter
      (fun i => !((i == 5 && (m / 2) % 2 == 1) || (i == 3 && (m / 4) % 2 == 1)))).map .host

/-- the names a code object with layout `l` defines itself, in slot order -/
def defNames (l : Lay) : List GName :=
  (List.range l.fills).map .fill ++ (if l.swap then [.act 0, .over 0] else [.over 0, .act 0]) ++
    (List.range l.pads).map .pad ++ [.who]

/-- the symbol table of a code object with layout `l` -/
def codeTbl (l : Lay) : List GName := hostTbl l.hset ++ defNames l

/-- the names REPL snippet `k` adds to the main code's symbol table -/
def snippetNames (k : Nat) : List GName := [.over (k + 1), .act (k + 1)]

/-- symbol table zipped with the `Globals` array: slot `i` ↦ (its name, its value) -/
abbrev Slots := List (GName × GVal)

structure Wrap where
  owner : Owner
  slots : Slots
  deriving DecidableEq, Repr, Inhabited

/-- `Get`'s loop: the first slot whose symbol has the name -/
def scan : Slots → GName → Got
  | [], _ => .notFound
  | (m, v) :: rest, n => if m = n then .val v else scan rest n

/-- `StoreGlobal idx`: the compiler resolved the name to the index of its symbol -/
def store : Slots → GName → GVal → Slots
  | [], _, _ => []
  | (m, v) :: rest, n, x => if m = n then (m, x) :: rest else (m, v) :: store rest n x

/-- `loadRootCode`: a fresh `Globals` array; the host's objects are filled in by NAME -/
def initVal : GName → GVal
  | .host i => .host i
  | _ => .unbound

def loadRoot (o : Owner) (tbl : List GName) : Wrap := ⟨o, tbl.map (fun n => (n, initVal n))⟩

def whoVal : Owner → Nat
  | .code j => 100 + j
  | .setup => 99
  | .main => 0

/-- the value the definition of `n` in code object `o` stores -/
def defVal (o : Owner) : GName → GVal
  | .act s => .fn (.act s) o
  | .over s => .fn (.over s) o
  | .fill i => .fn (.fill i) o
  | .pad i => .int (10 + i)
  | .who => .int (whoVal o)
  | .host i => .host i
  | .extra => .unbound
  | .nosuch => .unbound

/-- the top-level definitions `ns` of the active code are executed -/
def execDefs (w : Wrap) (ns : List GName) : Wrap :=
  { w with slots := ns.foldl (fun sl n => store sl n (defVal w.owner n)) w.slots }

/-- `reloadCode`: the main code is wrapped again (its table may have grown - symbols are only
    ever appended) and the old `Globals` are copied over the new array, slot by slot -/
def reload (old : Wrap) (tbl : List GName) : Wrap :=
  { old with slots := old.slots ++ (tbl.drop old.slots.length).map (fun n => (n, initVal n)) }

/-- the storage `Get` reads, per VM, plus the symbol table of the REPL compiler (world) -/
structure GSt where
  mainTbl : List GName := hostTbl 0   -- world: symbol table of the main code the host's REPL compiler grows
  mainW : Option Wrap := none         -- `vm.loadedCode[main]`
  codeW : Option Wrap := none         -- the wrapper of the root code object loaded by the last RunCode
  active : Option Bool := none        -- `vm.activeCode`: none | main (`true`) | the RunCode object (`false`)
  cur : Nat := 0                      -- host bookkeeping: suffix of the functions of the code run last (`act`: 0, `act_k`: k+1)
  deriving DecidableEq, Repr, Inhabited

/-- `resetForNewCode`: `loadedCode = {}`, `activeCode = nil` -/
def greset (g : GSt) : GSt := { g with mainW := none, codeW := none, active := none }

/-- `RunCode`'s look-up in `vm.loadedCode`: a wrapper that exists is reused as it is -/
def loadCode (g : GSt) (o : Owner) (lay : Lay) : Wrap :=
  match g.codeW with
  | some w => if w.owner = o then w else loadRoot o (codeTbl lay)
  | none => loadRoot o (codeTbl lay)

/-- the definitions for a `Call` on a VM without code: `RunCode(Background, defs)` with a newly
    compiled code object; `p` = the run-state just before -/
def gsetup (g : GSt) (p : St) (lay : Lay) : GSt :=
  let g := if 0 < p.startCount then greset g else g
  { g with codeW := some (execDefs (loadRoot .setup (codeTbl lay)) (defNames lay)),
           active := some false, cur := 0 }

/-- one invocation, seen from the storage `Get` reads (`s` = run-state before it) -/
def ginvoke (g : GSt) (s : St) (k : Nat) (inv : Inv) (lay : Lay) : GSt :=
  let p := preState s k inv
  -- the host compiles the REPL snippet into the main code
  let g := if inv.kind = .run then { g with mainTbl := g.mainTbl ++ snippetNames k } else g
  let g := if inv.kind = .call ∧ p.hasCode = false then gsetup g p lay else g
  let q := prep s k inv
  if q.running then g
  else match inv.kind with
    | .call => g
    | .runCode =>
      let g := if 0 < q.startCount then greset g else g
      let w := loadCode g (.code (codeOf k inv)) lay
      let w := if cut s k inv then w else execDefs w (defNames lay)
      { g with codeW := some w, active := some false, cur := 0 }
    | .run =>
      let w := match g.mainW with
        | some old => reload old g.mainTbl
        | none => loadRoot .main g.mainTbl
      let w := if cut s k inv then w else execDefs w (snippetNames k)
      { g with mainW := some w, active := some true, cur := k + 1 }

def activeWrap (g : GSt) : Option Wrap :=
  match g.active with
  | none => none
  | some true => g.mainW
  | some false => g.codeW

/-- **Impl** `vm.Get(name)`: reads, changes nothing -/
def get (g : GSt) (n : GName) : Got :=
  match activeWrap g with
  | none => .noCode
  | some w => scan w.slots n

/-- `vm.GlobalNames()` -/
def globalNames (g : GSt) : List GName :=
  match activeWrap g with
  | none => []
  | some w => w.slots.map (·.1)

/-- the name of the function a `Call` fetches with `Get` -/
def callTarget (g : GSt) : GName := .act g.cur

/-- `Get` on a freshly wrapped code object with layout `lay` whose definitions have (`bound`)
    or have not been executed -/
def codeGet (lay : Lay) (o : Owner) (bound : Bool) (n : GName) : Got :=
  if n ∈ codeTbl lay then
    .val (if bound && decide (n ∈ defNames lay) then defVal o n else initVal n)
  else .notFound

/-- `Get` on a fresh VM whose main code consists of REPL snippet `k` alone -/
def snippetGet (k : Nat) (bound : Bool) (n : GName) : Got :=
  if n ∈ hostTbl 0 then .val (initVal n)
  else if n ∈ snippetNames k then .val (if bound then defVal .main n else .unbound)
  else .notFound

/-- the name is not one that ANOTHER REPL snippet defines (the REPL keeps the globals of earlier
    snippets by design: the property says nothing about them) -/
def ownName (k : Nat) : GName → Bool
  | .act (j + 1) => j == k
  | .over (j + 1) => j == k
  | _ => true

/-- **Spec** of a look-up right after invocation `k`: what the name resolves to after the same
    invocation on a FRESH VM (same code object contents, context in the same state).  `none`:
    the property demands nothing by itself - a `Call` of a function of the code an earlier
    invocation loaded (the look-ups must then read what they read before the Call,
    `call_keeps_globals`), the names of earlier REPL snippets after a `Run`. -/
def specGet (s : St) (k : Nat) (inv : Inv) (lay : Lay) (n : GName) : Option Got :=
  match inv.kind with
  | .runCode => some (codeGet lay (.code (codeOf k inv)) (!dead s k inv) n)
  | .call => if (preState s k inv).hasCode then none else some (codeGet lay .setup true n)
  | .run => if ownName k n then some (snippetGet k (!dead s k inv) n) else none

/-- `GlobalNames()` after the same invocation on a fresh VM (`none` as for `specGet`; the REPL's
    table holds the names of all snippets by design) -/
def specNames (s : St) (k : Nat) (inv : Inv) (lay : Lay) : Option (List GName) :=
  match inv.kind with
  | .runCode => some (codeTbl lay)
  | .call => if (preState s k inv).hasCode then none else some (codeTbl lay)
  | .run => none

/-- an invocation with the layout of the code object compiled for it (RunCode: the object it is
    handed; Call: the definitions loaded when the VM has no code) and the names the host looks up
    before and after it -/
structure LInv where
  inv : Inv
  lay : Lay := {}
  pre : List GName := []
  post : List GName := []
  deriving DecidableEq, Repr, Inhabited

/-- what the look-ups of one invocation return: before it, after it (with the Spec), and the
    answer of `GlobalNames()` after it -/
structure Looked where
  pre : List Got
  post : List (Got × Option Got)
  names : List GName
  deriving DecidableEq, Repr, Inhabited

def looked (g : GSt) (s : St) (k : Nat) (x : LInv) : Looked :=
  let g' := ginvoke g s k x.inv x.lay
  { pre := x.pre.map (get g),
    post := x.post.map (fun n => (get g' n, specGet s k x.inv x.lay n)),
    names := globalNames g' }

/-- run a history with look-ups on the pair (run-state, name storage) -/
def lrunFrom (s : St) (g : GSt) (k : Nat) : List LInv → List Looked
  | [] => []
  | x :: rest =>
    looked g s k x :: lrunFrom (invoke s k x.inv).1 (ginvoke g s k x.inv x.lay) (k + 1) rest

def lrun (h : List LInv) : List Looked := lrunFrom (fresh 0) {} 0 h

/-- (Impl, Spec) of every look-up made after an invocation of the history -/
def lookPairs (h : List LInv) : List (Got × Option Got) := (lrun h).flatMap (·.post)

/-! #### The variant the property forbids: a per-VM cache name ↦ slot that `Get` fills and trusts
whenever the slot is within the active code's `Globals`, dropped when `Run` reloads the main code
but not when `RunCode` switches the VM to another code object (kept as a contrast: Props proves
that it is not independent of the VM's history, `cachedGet_depends_on_history`). -/

def slotOf : Slots → GName → Option Nat
  | [], _ => none
  | (m, _) :: rest, n => if m = n then some 0 else (slotOf rest n).map (· + 1)

/-- `Get` with the slot cache: (new cache, answer) -/
def getCached (cache : List (GName × Nat)) (g : GSt) (n : GName) : List (GName × Nat) × Got :=
  match activeWrap g with
  | none => (cache, .noCode)
  | some w =>
    match cache.lookup n with
    | some i =>
      if i < w.slots.length then (cache, .val ((w.slots.getD i (n, .unbound)).2))
      else (match slotOf w.slots n with
            | some j => ((n, j) :: cache, .val ((w.slots.getD j (n, .unbound)).2))
            | none => (cache, .notFound))
    | none =>
      match slotOf w.slots n with
      | some j => ((n, j) :: cache, .val ((w.slots.getD j (n, .unbound)).2))
      | none => (cache, .notFound)

def lookCached (cache : List (GName × Nat)) (g : GSt) : List GName → List (GName × Nat) × List Got
  | [] => (cache, [])
  | n :: ns =>
    let r := getCached cache g n
    let r' := lookCached r.1 g ns
    (r'.1, r.2 :: r'.2)

/-- the answers of the look-ups made after each invocation, with the cache -/
def lrunCachedFrom (cache : List (GName × Nat)) (s : St) (g : GSt) (k : Nat) : List LInv → List (List Got)
  | [] => []
  | x :: rest =>
    let g' := ginvoke g s k x.inv x.lay
    let cache := if x.inv.kind = .run then [] else cache
    let r := lookCached cache g' x.post
    r.2 :: lrunCachedFrom r.1 (invoke s k x.inv).1 g' (k + 1) rest

/-! ### What the model assumes about the text of vm/vm.go (tied in Ties.lean to the facts the
extractor regenerates from the source on every run) -/

def expectStartAssigns : List String := ["halt", "running", "startCount"]
/-- `stop` only clears `running`: it does not disarm the watcher `start` spawned -/
def expectStopAssigns : List String := ["running"]
def expectStopCalls : List String := ["vm.runMutex.Lock()", "vm.runMutex.Unlock()"]
def expectResetAssigns : List String :=
  ["activeCode", "activeFrame", "fp", "frames", "halt", "ip", "loadedCode", "modules", "sp", "stack", "tmp"]
def expectResetCondition : String := "resetState && vm.startCount > 1"
def expectMaxFrameDepth : Nat := 1024
def expectMaxStackDepth : Nat := 1024
/-- `Get` and `GlobalNames` assign nothing: a look-up leaves no trace on the VM (model: `get` is a
    function of the state) -/
def expectGetAssigns : List String := []
/-- the only field of the VM `Get` / `GlobalNames` read is the active code (model: `activeWrap`) -/
def expectGetReads : List String := ["activeCode"]
/-- every field of `VirtualMachine` (sorted): the storage that can survive an invocation.
    Accounted for: ip/sp/fp/halt/startCount/running - `St`; stack/frames/tmp - `sp`, `fp` (what
    lies above the pointers is dead); activeFrame/activeCode/main/loadedCode - `hasCode`,
    `loaded`, `cur`, `GSt`; modules/importer - `mods`, `fmod`, `icache`; importing - empty between
    invocations (pushed and popped around a module's code by `importModule`); callDepth - 0 between
    invocations (raised and lowered around a call by `callFunction`'s own Go defer, also on the
    error and panic paths); inputGlobals/
    globals - `DSt` (host DATA converted by copy; `applyOptions` converts on every RunCode); for
    host OBJECTS constant after construction;
    concAllowed/os - options, constant after construction; runMutex/cloneMutex - locks.
    A field that is not in this list is storage the model does not know of. -/
def expectVmFields : List String :=
  ["activeCode", "activeFrame", "callDepth", "cloneMutex", "concAllowed", "fp", "frames", "globals", "halt",
   "importer", "importing", "inputGlobals", "ip", "loadedCode", "main", "modules", "os",
   "runMutex", "running", "sp", "stack", "startCount", "tmp"]

/-! ## Host DATA globals, converted by copy (round 6)

A host global that is plain Go data (`[]any`, `map[string]any`, `[]int`, …) - not an
`object.Object` - is CONVERTED to a new Risor list/map by `applyOptions` (`object.AsObjects`),
which runs at construction and at the start of every `RunCode`; `loadRootCode` then puts the
objects of that conversion into the slots of the code object.  The converted objects are mutable
and scripts update them in place, so when the conversion happens is observable.  Modelled: two
data globals, `data` (a slice of ints) and `cfg` (a map with the entry `"n"`), histories of
`RunCode` invocations that are or are not handed `WithGlobals` (with the same or with changed Go
data) and whose scripts perform any in-place updates before they end - however they end. -/

/-- the value of the data globals: the elements of `data` and the entry `cfg["n"]` -/
structure DVal where
  items : List Int := []
  ctr : Int := 0
deriving DecidableEq, Repr

/-- an in-place update a script performs: `data.append(x)` / `cfg["n"] = cfg["n"] - 1` -/
inductive DOp where
  | app (x : Int)
  | dec
deriving DecidableEq, Repr

def dApply (d : DVal) : DOp → DVal
  | .app x => { d with items := d.items ++ [x] }
  | .dec => { d with ctr := d.ctr - 1 }

def dApplyAll (d : DVal) (ops : List DOp) : DVal := ops.foldl dApply d

/-- one `RunCode` invocation as far as the data globals are concerned.  `give`: the Go data of a
    `WithGlobals` option handed to this RunCode (`none`: no options at all, or only other options
    such as `WithConcurrency`); `ops`: the updates the script has performed when it ends - with a
    value, a runtime error at depth or a recovered panic, possibly half way through its updates. -/
structure DInv where
  give : Option DVal := none
  ops : List DOp := []
deriving DecidableEq, Repr

/-- `input` = `vm.inputGlobals` (the host's Go data; no script can reach it, the conversion
    copies); `conv` = the contents of the Risor objects in `vm.globals`, to which the slots of the
    code object loaded last refer. -/
structure DSt where
  input : DVal
  conv : DVal
deriving DecidableEq, Repr

/-- `vm.New(main, WithGlobals(d))` (or `vm.New(main)` followed by a first RunCode that is handed
    them: `give`) -/
def dNew (d : DVal) : DSt := { input := d, conv := d }

/-- `applyOptions` as it is: the options are applied, then the input globals are converted -
    unconditionally. -/
def dApplyOptions (s : DSt) (give : Option DVal) : DSt :=
  let input := give.getD s.input
  { input := input, conv := input }

/-- `RunCode`: options, reset, `loadRootCode` from `vm.globals`, the script's updates.  Second
    component: what `data`/`cfg` hold when the invocation has ended (the script's last read, and
    the host's `vm.Get` afterwards). -/
def dRunCode (s : DSt) (v : DInv) : DSt × DVal :=
  let s1 := dApplyOptions s v.give
  let c := dApplyAll s1.conv v.ops
  ({ s1 with conv := c }, c)

def dAfterFrom (s : DSt) (h : List DInv) : DSt := h.foldl (fun s v => (dRunCode s v).1) s
/-- the reused VM after the history `h` -/
def dAfter (d0 : DVal) (h : List DInv) : DSt := dAfterFrom (dNew d0) h

def dRunFrom (s : DSt) : List DInv → List DVal
  | [] => []
  | v :: rest => (dRunCode s v).2 :: dRunFrom (dRunCode s v).1 rest
/-- what every invocation of the history sees on ONE VM constructed with the data `d0` -/
def dRun (d0 : DVal) (h : List DInv) : List DVal := dRunFrom (dNew d0) h

/-- the host's Go data after the history: changed only by the host (`WithGlobals`) -/
def dCurrent (d0 : DVal) (h : List DInv) : DVal := h.foldl (fun d v => v.give.getD d) d0

/-- **Spec**: the same invocation on a fresh VM constructed with the host's current Go data -/
def dSpecAt (cur : DVal) (v : DInv) : DVal := (dRunCode (dNew cur) v).2

def dSpecFrom (cur : DVal) : List DInv → List DVal
  | [] => []
  | v :: rest => dSpecAt cur v :: dSpecFrom (v.give.getD cur) rest

/-- the forbidden variant (contrast): convert only when `WithGlobals` was among the options -/
def dApplyOptionsDirty (s : DSt) : Option DVal → DSt
  | some d => { input := d, conv := d }
  | none => s

def dRunCodeDirty (s : DSt) (v : DInv) : DSt × DVal :=
  let s1 := dApplyOptionsDirty s v.give
  let c := dApplyAll s1.conv v.ops
  ({ s1 with conv := c }, c)

def dRunDirtyFrom (s : DSt) : List DInv → List DVal
  | [] => []
  | v :: rest => (dRunCodeDirty s v).2 :: dRunDirtyFrom (dRunCodeDirty s v).1 rest

/-! ## Objects the HOST keeps across invocations (round 7)

Objects with identity survive an invocation on the host's side: a function object or a closure
the host obtained with `vm.Get` (or was handed as a callback by the script through a host
builtin) in invocation i and calls with `vm.Call` - or from a host builtin of a running script -
in invocation j > i; a list it obtained in one invocation and reads in a later one.  In between
the VM runs `RunCode` of the same, of another or of a grown code object: `resetForNewCode`
replaces `vm.loadedCode`, and with it the `Globals` array of the load.  As the code is: a call
looks the function's code up in the CURRENT `vm.loadedCode` (`activateFunction` -> `loadCode`),
so a kept function works on the globals of the load that is current when it is called; when the
root code object of the function is not loaded, `loadChildCode` dereferences a nil root (a
recovered Go panic - an error that depends on the loaded code only).

Script family (one per code object; `p`, `fails` and the target of `fire` are read from the host):
`x := param(); items := [param()]; func bump(n) {x = x + n; items.append(n); return [0, x]};
func peek(n) {return [0, x]}; func mk(k) {return func(n) {x = x + n; return [k, x]}};
cl := mk(param()); reg(bump); x = x + 1; fire(); if fail() {1 + "s"}; x = x + 10` followed by one
`x = x + 1000` per snippet the host has compiled into the code object since. -/

/-- one `Globals` array: made by `loadRootCode` when a RunCode loads the root code object `code`;
    `k` is the value the closure in slot `cl` captured. -/
structure KG where
  code : Nat
  x : Int
  items : List Int
  k : Int
deriving DecidableEq, Repr

/-- the functions of the script: `bump`, `peek`, and the closure `cl` with its captured value -/
inductive KFn where
  | bump
  | peek
  | clo (k : Int)
deriving DecidableEq, Repr

/-- an object the host keeps: a function/closure of (a load of) code object `code`; the list
    object in slot `items` of the array of load number `gen` -/
inductive KObj where
  | fn (code : Nat) (f : KFn)
  | list (gen : Nat)
deriving DecidableEq, Repr

/-- what the host fetches by name with `vm.Get` -/
inductive KWhat where
  | bump | peek | cl | items
deriving DecidableEq, Repr

inductive KRes where
  | ok (k : Int) (x : Int)   -- result `[k, x]` of a function call
  | ranOk | ranErr | ranPanic -- how a RunCode ended
  | notLoaded                -- the function's root code object is not loaded (recovered nil dereference)
  | noCode                   -- vm.Get: no active code
  | kept                     -- vm.Get succeeded, the host keeps the object
  | badTarget                -- not a function / no such kept object (never generated)
  | listIs (xs : List Int)
deriving DecidableEq, Repr

/-- `old`: the arrays of earlier loads, oldest first - unreachable from the VM, reachable from the
    objects the host kept; `cur`: the array of the loaded root code (its load number is
    `old.length`); `kept`: the host's table. -/
structure KSt where
  old : List KG := []
  cur : Option KG := none
  kept : List KObj := []
deriving DecidableEq, Repr

/-- the body of a function, executed on one `Globals` array -/
def kApply (f : KFn) (n : Int) (g : KG) : KG × KRes :=
  match f with
  | .bump => ({ g with x := g.x + n, items := g.items ++ [n] }, .ok 0 (g.x + n))
  | .peek => (g, .ok 0 g.x)
  | .clo k => ({ g with x := g.x + n }, .ok k (g.x + n))

/-- a call of the function `f` of code object `c` as the code is: `loadCode` resolves the
    function's code in the CURRENT table of loaded code -/
def kCallFn (s : KSt) (c : Nat) (f : KFn) (n : Int) : KSt × KRes :=
  match s.cur with
  | some g => if g.code = c then ({ s with cur := some (kApply f n g).1 }, (kApply f n g).2) else (s, .notLoaded)
  | none => (s, .notLoaded)

def kCallObj (s : KSt) (o : Option KObj) (n : Int) : KSt × KRes :=
  match o with
  | some (.fn c f) => kCallFn s c f n
  | _ => (s, .badTarget)

/-- the object `vm.Get` returns for a name -/
def kFetch (s : KSt) (w : KWhat) : Option KObj :=
  match s.cur with
  | none => none
  | some g => some (match w with
    | .bump => .fn g.code .bump
    | .peek => .fn g.code .peek
    | .cl => .fn g.code (.clo g.k)
    | .items => .list s.old.length)

/-- the contents of the list object of load `gen` -/
def kReadList (s : KSt) (gen : Nat) : Option (List Int) :=
  if gen = s.old.length then s.cur.map (·.items) else s.old[gen]?.map (·.items)

inductive KInv where
  /-- `RunCode` of code object `code` (into which the host has compiled `snips` further snippets);
      `fire = some (i, n)`: the host builtin `fire` calls the kept object `i` with `n` -/
  | runCode (code : Nat) (p : Int) (snips : Nat) (fire : Option (Nat × Int)) (fails : Bool)
  | keep (w : KWhat)
  | call (i : Nat) (n : Int)
  | callFresh (w : KWhat) (n : Int)
  | read (i : Nat)
deriving DecidableEq, Repr

/-- reset + `loadRootCode`: a new array; the definitions, `reg(bump)`, `x = x + 1` -/
def kLoad (s : KSt) (c : Nat) (p : Int) : KSt :=
  { old := s.old ++ s.cur.toList, cur := some { code := c, x := p + 1, items := [p], k := p },
    kept := s.kept ++ [.fn c .bump] }

/-- the rest of the script after `fire()`: a fired callback whose code is not loaded is a Go panic
    that ends the run; `if fail() {1 + "s"}`; `x = x + 10` and the grown snippets -/
def kFinish (fails : Bool) (snips : Nat) (r : KSt × KRes) : KSt × KRes :=
  if r.2 = .notLoaded then (r.1, .ranPanic)
  else if fails then (r.1, .ranErr)
  else ({ r.1 with cur := r.1.cur.map (fun g => { g with x := g.x + 10 + 1000 * snips }) }, .ranOk)

def kRunCode (s : KSt) (c : Nat) (p : Int) (snips : Nat) (fire : Option (Nat × Int)) (fails : Bool) : KSt × KRes :=
  let s1 := kLoad s c p
  let r := match fire with
    | some (i, n) => kCallObj s1 s1.kept[i]? n
    | none => (s1, .ok 0 0)
  kFinish fails snips r

def kStep (s : KSt) : KInv → KSt × KRes
  | .runCode c p sn fr fl => kRunCode s c p sn fr fl
  | .keep w => match kFetch s w with
    | some o => ({ s with kept := s.kept ++ [o] }, .kept)
    | none => (s, .noCode)
  | .call i n => kCallObj s s.kept[i]? n
  | .callFresh w n => match kFetch s w with
    | some o => kCallObj s (some o) n
    | none => (s, .noCode)
  | .read i => match s.kept[i]? with
    | some (.list g) => (s, match kReadList s g with | some xs => .listIs xs | none => .badTarget)
    | _ => (s, .badTarget)

def kAfterFrom (s : KSt) (h : List KInv) : KSt := h.foldl (fun s v => (kStep s v).1) s
/-- the machine after the history `h` on a new VM -/
def kAfter (h : List KInv) : KSt := kAfterFrom {} h

def kRunFrom (s : KSt) : List KInv → List KRes
  | [] => []
  | v :: rest => (kStep s v).2 :: kRunFrom (kStep s v).1 rest

/-- what a later invocation can depend on, by the property: the array of the CURRENT load and
    which functions the host keeps - not the arrays of earlier loads -/
def KObj.callee : KObj → Option (Nat × KFn)
  | .fn c f => some (c, f)
  | .list _ => none

def kView (s : KSt) : Option KG × List (Option (Nat × KFn)) := (s.cur, s.kept.map KObj.callee)

/-- **Spec** of one invocation: a call of a kept function of the loaded code = fetching the
    function again (`vm.Get`) and calling that; a RunCode = the same RunCode on a VM that has
    forgotten every earlier load (the kept functions of other code objects stay foreign) -/
def kSpecRes (s : KSt) : KInv → KRes
  | .call i n => match s.kept[i]?, s.cur with
    | some (.fn c f), some g =>
      if g.code = c then
        (kStep s (.callFresh (match f with | .bump => .bump | .peek => .peek | .clo _ => .cl) n)).2 |>
          (fun r => match r, f with | .ok _ x, .clo k => .ok k x | r, _ => r)
      else .notLoaded
    | some (.fn _ _), none => .notLoaded
    | _, _ => .badTarget
  | .read i => (kStep s (.read i)).2
  | .runCode c p sn fr fl => (kStep { s with old := [], cur := none } (.runCode c p sn fr fl)).2
  | v => (kStep { s with old := [] } v).2

/-! #### The variant the property forbids: every function object remembers the loaded code (and
with it the `Globals` array) of its first call, and nothing invalidates that -/

structure KCSt where
  st : KSt := {}
  /-- per kept object: the load number whose array the function object remembers -/
  bound : List (Option Nat) := []
deriving DecidableEq, Repr

def kcArr (s : KSt) (g : Nat) : Option KG := if g = s.old.length then s.cur else s.old[g]?

def kcSetArr (s : KSt) (g : Nat) (a : KG) : KSt :=
  if g = s.old.length then { s with cur := some a } else { s with old := s.old.set g a }

def kcCallObj (s : KCSt) (i : Nat) (n : Int) : KCSt × KRes :=
  match s.st.kept[i]? with
  | some (.fn c f) =>
    match (s.bound[i]?).join with
    | some g => match kcArr s.st g with
      | some a => ({ s with st := kcSetArr s.st g (kApply f n a).1 }, (kApply f n a).2)
      | none => (s, .badTarget)
    | none =>
      let r := kCallFn s.st c f n
      ({ st := r.1, bound := if r.2 = .notLoaded then s.bound else s.bound.set i (some s.st.old.length) }, r.2)
  | _ => (s, .badTarget)

def kcPad (s : KCSt) : KCSt := { s with bound := s.bound ++ List.replicate (s.st.kept.length - s.bound.length) none }

def kcStep (s : KCSt) : KInv → KCSt × KRes
  | .runCode c p sn fr fl =>
    let s1 : KCSt := kcPad { s with st := kLoad s.st c p }
    let r := match fr with
      | some (i, n) => kcCallObj s1 i n
      | none => (s1, .ok 0 0)
    let f := kFinish fl sn (r.1.st, r.2)
    ({ r.1 with st := f.1 }, f.2)
  | .call i n => kcCallObj s i n
  | v => let r := kStep s.st v; (kcPad { s with st := r.1 }, r.2)

def kcRunFrom (s : KCSt) : List KInv → List KRes
  | [] => []
  | v :: rest => (kcStep s v).2 :: kcRunFrom (kcStep s v).1 rest


end Risor.C07
