import RisorModel.C07.Model
/-!
C07 — helper lemmas: what `cancel`/`cancelAll` can and cannot change, and when `halt`
becomes set.
-/
namespace Risor.C07

/-- the part of the state a cancellation never touches -/
def sameCore (a b : St) : Prop :=
  a.running = b.running ∧ a.startCount = b.startCount ∧ a.sp = b.sp ∧ a.fp = b.fp ∧
  a.hasCode = b.hasCode ∧ a.mods = b.mods ∧ a.acc = b.acc

theorem sameCore_refl (a : St) : sameCore a a := ⟨rfl, rfl, rfl, rfl, rfl, rfl, rfl⟩

theorem sameCore_trans {a b c : St} (h1 : sameCore a b) (h2 : sameCore b c) : sameCore a c := by
  obtain ⟨a1, a2, a3, a4, a5, a6, a7⟩ := h1
  obtain ⟨b1, b2, b3, b4, b5, b6, b7⟩ := h2
  exact ⟨a1.trans b1, a2.trans b2, a3.trans b3, a4.trans b4, a5.trans b5, a6.trans b6, a7.trans b7⟩

theorem cancel_sameCore (s : St) (i : Nat) : sameCore (cancel s i) s := by
  unfold cancel
  split
  · exact sameCore_refl s
  · simp only
    split <;> exact ⟨rfl, rfl, rfl, rfl, rfl, rfl, rfl⟩

/-- a cancellation never touches the module caches -/
theorem cancel_sameCore' (s : St) (i : Nat) :
    (cancel s i).fmod = s.fmod ∧ (cancel s i).mods = s.mods := by
  unfold cancel
  split
  · exact ⟨rfl, rfl⟩
  · simp only
    split <;> exact ⟨rfl, rfl⟩

/-- a cancellation never touches the code objects, the wrapper cache or the executed snapshot -/
theorem cancel_code (s : St) (i : Nat) :
    (cancel s i).grown = s.grown ∧ (cancel s i).loaded = s.loaded ∧ (cancel s i).cur = s.cur ∧
    (cancel s i).gone = s.gone := by
  unfold cancel
  split
  · exact ⟨rfl, rfl, rfl, rfl⟩
  · simp only
    split <;> exact ⟨rfl, rfl, rfl, rfl⟩

theorem cancelAll_code (s : St) (is : List Nat) :
    (cancelAll s is).grown = s.grown ∧ (cancelAll s is).loaded = s.loaded ∧
    (cancelAll s is).cur = s.cur ∧ (cancelAll s is).fmod = s.fmod ∧
    (cancelAll s is).gone = s.gone := by
  induction is generalizing s with
  | nil => exact ⟨rfl, rfl, rfl, rfl, rfl⟩
  | cons i t ih =>
    show (cancelAll (cancel s i) t).grown = _ ∧ _
    obtain ⟨a, b, c, d, e⟩ := ih (cancel s i)
    obtain ⟨a', b', c', e'⟩ := cancel_code s i
    exact ⟨a.trans a', b.trans b', c.trans c', d.trans (cancel_sameCore' s i).1, e.trans e'⟩

/-- the storage of the VM that no cancellation reads: the file-module cache ... -/
theorem cancel_fmod (s : St) (i : Nat) (b : Bool) :
    cancel { s with fmod := b } i = { cancel s i with fmod := b } := by
  unfold cancel
  simp only
  split
  · rfl
  · split <;> rfl

theorem cancelAll_fmod (s : St) (is : List Nat) (b : Bool) :
    cancelAll { s with fmod := b } is = { cancelAll s is with fmod := b } := by
  induction is generalizing s with
  | nil => rfl
  | cons i t ih =>
    show cancelAll (cancel { s with fmod := b } i) t = _
    rw [cancel_fmod, ih]; rfl

/-- ... and the wrapper cache -/
theorem cancel_loaded (s : St) (i : Nat) (l : List (Nat × Nat)) :
    cancel { s with loaded := l } i = { cancel s i with loaded := l } := by
  unfold cancel
  simp only
  split
  · rfl
  · split <;> rfl

theorem cancelAll_loaded (s : St) (is : List Nat) (l : List (Nat × Nat)) :
    cancelAll { s with loaded := l } is = { cancelAll s is with loaded := l } := by
  induction is generalizing s with
  | nil => rfl
  | cons i t ih =>
    show cancelAll (cancel { s with loaded := l } i) t = _
    rw [cancel_loaded, ih]; rfl

theorem cancelAll_sameCore (s : St) (is : List Nat) : sameCore (cancelAll s is) s := by
  induction is generalizing s with
  | nil => exact sameCore_refl s
  | cons i t ih =>
    show sameCore (cancelAll (cancel s i) t) s
    exact sameCore_trans (ih (cancel s i)) (cancel_sameCore s i)

/-- `fires` in terms of membership -/
theorem fires_iff (s : St) (i : Nat) : fires s i = true ↔ i ∈ s.armed ∧ i ∉ s.cancelled := by
  unfold fires; simp

/-- `cancel` in the three possible situations -/
theorem cancel_of_cancelled (s : St) (i : Nat) (h : i ∈ s.cancelled) : cancel s i = s := by
  unfold cancel; simp [h]

theorem cancel_fires (s : St) (i : Nat) (h : fires s i = true) :
    cancel s i = { s with cancelled := i :: s.cancelled, halt := true, armed := s.armed.filter (· != i) } := by
  rw [fires_iff] at h
  unfold cancel
  simp [h.1, h.2]

theorem cancel_unarmed (s : St) (i : Nat) (hc : i ∉ s.cancelled) (ha : i ∉ s.armed) :
    cancel s i = { s with cancelled := i :: s.cancelled } := by
  unfold cancel
  simp [hc, ha]

/-- every cancelled context after `cancel` was cancelled before or is the one named -/
theorem cancel_cancelled (s : St) (i x : Nat) (hx : x ∈ (cancel s i).cancelled) :
    x ∈ s.cancelled ∨ x = i := by
  unfold cancel at hx
  split at hx
  · exact Or.inl hx
  · simp only at hx
    split at hx <;> simp only [List.mem_cons] at hx <;> rcases hx with h | h <;> simp [h]

theorem cancelAll_cancelled (s : St) (is : List Nat) (x : Nat)
    (hx : x ∈ (cancelAll s is).cancelled) : x ∈ s.cancelled ∨ x ∈ is := by
  induction is generalizing s with
  | nil => exact Or.inl hx
  | cons i t ih =>
    have := ih (cancel s i) hx
    rcases this with h | h
    · rcases cancel_cancelled s i x h with h | h
      · exact Or.inl h
      · exact Or.inr (by simp [h])
    · exact Or.inr (by simp [h])

/-- a cancellation never clears `halt` -/
theorem cancel_halt_mono (s : St) (i : Nat) (h : s.halt = true) : (cancel s i).halt = true := by
  unfold cancel
  split
  · exact h
  · simp only
    split
    · rfl
    · exact h

/-- cancelling `i` does not change whether cancelling another context `j` would fire -/
theorem fires_cancel_ne (s : St) (i j : Nat) (hne : j ≠ i) :
    fires (cancel s i) j = fires s j := by
  unfold cancel
  split
  · rfl
  · simp only
    split
    · unfold fires
      simp only [List.contains_eq_mem, List.mem_cons, hne, false_or]
      have : (j ∈ s.armed.filter (· != i)) ↔ j ∈ s.armed := by
        simp [List.mem_filter, hne]
      simp [this]
    · unfold fires
      simp [List.contains_eq_mem, hne]

/-- after `cancel s i`, cancelling `i` again never fires -/
theorem fires_cancel_self (s : St) (i : Nat) : fires (cancel s i) i = false := by
  unfold cancel
  split
  · rename_i h
    have h' : i ∈ s.cancelled := by simpa using h
    unfold fires; simp [h']
  · simp only
    split <;> (unfold fires; simp)

/-- `halt` after a list of cancellations: it was set before, or one of them fired a
    watcher that was armed and whose context was not yet cancelled -/
theorem cancelAll_halt (s : St) (is : List Nat) :
    (cancelAll s is).halt = (s.halt || is.any (fires s)) := by
  induction is generalizing s with
  | nil => simp [cancelAll]
  | cons i t ih =>
    show (cancelAll (cancel s i) t).halt = _
    rw [ih (cancel s i), List.any_cons]
    cases hf : fires s i with
    | true =>
      have : (cancel s i).halt = true := by rw [cancel_fires s i hf]
      simp [this]
    | false =>
      -- the head does not fire: `halt` is unchanged and so is `fires` for every other context
      have hh : (cancel s i).halt = s.halt := by
        by_cases hc : i ∈ s.cancelled
        · rw [cancel_of_cancelled s i hc]
        · have ha : i ∉ s.armed := by
            intro ha
            have := (fires_iff s i).2 ⟨ha, hc⟩
            rw [hf] at this; cases this
          rw [cancel_unarmed s i hc ha]
      have hany : t.any (fires (cancel s i)) = t.any (fires s) := by
        apply List.any_congr rfl
        intro j
        by_cases hji : j = i
        · subst hji; rw [fires_cancel_self, hf]
        · exact fires_cancel_ne s i j hji
      rw [hh, hany]; simp

/-- a watcher that is armed stays armed while OTHER contexts are cancelled -/
theorem cancel_armed_keep (s : St) (i k : Nat) (hne : k ≠ i) (hk : k ∈ s.armed) :
    k ∈ (cancel s i).armed := by
  unfold cancel
  split
  · exact hk
  · simp only
    split
    · simp [List.mem_filter, hk, hne]
    · exact hk

theorem cancelAll_armed_keep (s : St) (is : List Nat) (k : Nat) (hk : k ∈ s.armed)
    (hn : k ∉ is) : k ∈ (cancelAll s is).armed := by
  induction is generalizing s with
  | nil => exact hk
  | cons i t ih =>
    simp only [List.mem_cons, not_or] at hn
    exact ih (cancel s i) (cancel_armed_keep s i k hn.1 hk) hn.2

/-- a cancelled context stays cancelled -/
theorem cancel_cancelled_mono (s : St) (i x : Nat) (hx : x ∈ s.cancelled) :
    x ∈ (cancel s i).cancelled := by
  unfold cancel
  split
  · exact hx
  · simp only
    split <;> simp [hx]

theorem cancelAll_cancelled_mono (s : St) (is : List Nat) (x : Nat) (hx : x ∈ s.cancelled) :
    x ∈ (cancelAll s is).cancelled := by
  induction is generalizing s with
  | nil => exact hx
  | cons i t ih => exact ih (cancel s i) (cancel_cancelled_mono s i x hx)

theorem mem_others (c : Nat) (is : List Nat) (x : Nat) (h : x ∈ others c is) : x ≠ c := by
  unfold others at h
  simp only [List.mem_filter, bne_iff_ne, ne_eq] at h
  exact h.2

/-- cancelling OTHER contexts does not change whether `c` is cancelled -/
theorem cancelAll_others_contains (s : St) (c : Nat) (is : List Nat) :
    (cancelAll s (others c is)).cancelled.contains c = s.cancelled.contains c := by
  cases h : s.cancelled.contains c with
  | true =>
    have := cancelAll_cancelled_mono s (others c is) c (by simpa using h)
    simpa using this
  | false =>
    have hn : c ∉ s.cancelled := by simpa using h
    have : c ∉ (cancelAll s (others c is)).cancelled := by
      intro hc
      rcases cancelAll_cancelled s _ c hc with h1 | h1
      · exact hn h1
      · exact mem_others c is c h1 rfl
    simpa using this

/-- the invariant that holds between invocations, for histories of any length: the VM is
    not running, the frame pointer is back at the base frame, and a VM that has never been
    started has no wrapped code.  `halt`, `sp`, the armed watchers, the module cache, which
    contexts are cancelled and what the code objects contain are deliberately NOT constrained:
    they are whatever the earlier invocations and the host left.  (The index `k` is kept for
    the statements' sake; nothing depends on it.) -/
structure Good (s : St) (k : Nat) : Prop where
  quiet : s.running = false
  fp0 : s.fp = 0
  cold : s.startCount = 0 → s.loaded = []

theorem good_fresh (acc k : Nat) : Good (fresh acc) k :=
  ⟨rfl, rfl, fun _ => rfl⟩

theorem setup_facts (s : St) :
    (setup s).running = s.running ∧ (setup s).acc = s.acc ∧ (setup s).cancelled = s.cancelled ∧
    (setup s).armed = s.armed ∧ (s.fp = 0 → (setup s).fp = 0) ∧ (setup s).grown = s.grown ∧
    (setup s).loaded = s.loaded ∧ s.startCount ≤ (setup s).startCount := by
  unfold setup
  split <;> simp

theorem events_facts (s : St) (inv : Inv) :
    (events s inv).running = s.running ∧ (events s inv).acc = s.acc ∧ (events s inv).fp = s.fp ∧
    (events s inv).startCount = s.startCount ∧ (events s inv).loaded = s.loaded ∧
    (events s inv).grown = inv.grows ++ s.grown := by
  unfold events
  obtain ⟨h1, h2, _, h4, _, _, h7⟩ := cancelAll_sameCore { s with grown := inv.grows ++ s.grown } inv.pre
  obtain ⟨c1, c2, _, _, _⟩ := cancelAll_code { s with grown := inv.grows ++ s.grown } inv.pre
  exact ⟨h1, h7, h4, h2, c2, c1⟩

theorem prep_facts (s : St) (k : Nat) (inv : Inv) (g : Good s k) :
    (prep s k inv).running = false ∧ (prep s k inv).acc = s.acc ∧ (prep s k inv).fp = 0 ∧
    (prep s k inv).cancelled = (preState s k inv).cancelled ∧
    (prep s k inv).grown = (preState s k inv).grown ∧
    ((prep s k inv).startCount = 0 → (prep s k inv).loaded = []) ∧
    (0 < s.startCount → 0 < (prep s k inv).startCount) := by
  obtain ⟨e1, e2, e3, e4, e5, _⟩ := events_facts s inv
  unfold prep preState
  simp only
  split
  · obtain ⟨a, b, c, _, e, f, h, i⟩ := setup_facts (events s inv)
    refine ⟨by rw [a, e1, g.quiet], by rw [b, e2], e (by rw [e3, g.fp0]), c, f, ?_, ?_⟩
    · intro h0
      rw [h, e5]
      exact g.cold (by omega)
    · intro h0; omega
  · refine ⟨by rw [e1, g.quiet], e2, by rw [e3, g.fp0], rfl, rfl, ?_, ?_⟩
    · intro h0; rw [e5]; exact g.cold (by omega)
    · intro h0; omega

theorem enter_facts (s : St) (k : Nat) (inv : Inv) :
    (enter s k inv).halt = false ∧ (enter s k inv).running = true ∧
    (enter s k inv).acc = s.acc ∧ (enter s k inv).cancelled = s.cancelled ∧
    (enter s k inv).armed =
      (if inv.bg || (!inv.bg && s.cancelled.contains (ctxOf k inv)) then s.armed
       else ctxOf k inv :: s.armed) ∧
    (s.fp = 0 → (enter s k inv).fp = 0) ∧ (enter s k inv).grown = s.grown ∧
    (enter s k inv).startCount = s.startCount + 1 ∧
    (enter s k inv).gone = (!inv.bg && s.cancelled.contains (ctxOf k inv)) := by
  unfold enter
  simp only
  split <;> split <;> simp [start, reset]

/-- **`RunCode` wraps the code object as it is NOW**: on a VM whose wrapper cache is empty
    whenever it has never been started, the snapshot that is executed has the code object's
    current generation (after a reset the cache is empty; before the first start it is empty
    by assumption) -/
theorem enter_cur (s : St) (k : Nat) (inv : Inv) (hc : s.startCount = 0 → s.loaded = []) :
    (enter s k inv).cur = if inv.kind = .runCode then genOf s (codeOf k inv) else 0 := by
  unfold enter
  simp only
  by_cases hk : inv.kind = .runCode
  · simp only [hk, true_and, ↓reduceIte]
    by_cases h1 : 0 < s.startCount
    · simp [h1, reset, genOf, start]
    · have h0 : s.startCount = 0 := by omega
      simp [h0, start, hc h0, genOf]
  · simp [hk]

theorem dead_eq (s : St) (k : Nat) (inv : Inv) (g : Good s k) :
    (bodyState s k inv).gone = dead s k inv := by
  obtain ⟨_, _, _, p4, _⟩ := prep_facts s k inv g
  unfold bodyState dead
  rw [(enter_facts (prep s k inv) k inv).2.2.2.2.2.2.2.2, p4]

theorem eff_fields (s : St) (k : Nat) (inv : Inv) :
    (eff s k inv).kind = inv.kind ∧ (eff s k inv).beh = inv.beh ∧ (eff s k inv).v = inv.v ∧
    (eff s k inv).bump = inv.bump ∧ (eff s k inv).imp = inv.imp ∧
    (eff s k inv).during = inv.during ∧ (eff s k inv).depth = inv.depth ∧
    (eff s k inv).bg = (inv.bg || dead s k inv) := by
  unfold eff
  split
  · rename_i h; simp [h]
  · rename_i h; simp [h]

/-- facts about the state in which the body starts, under the invariant -/
theorem bodyState_facts (s : St) (k : Nat) (inv : Inv) (g : Good s k) :
    (bodyState s k inv).halt = false ∧ (bodyState s k inv).acc = s.acc ∧
    (bodyState s k inv).fp = 0 ∧
    (bodyState s k inv).cancelled = (preState s k inv).cancelled ∧
    ((eff s k inv).bg = false → ctxOf k inv ∈ (bodyState s k inv).armed ∧
        ctxOf k inv ∉ (bodyState s k inv).cancelled) ∧
    (bodyState s k inv).cur = curGen s k inv ∧ (bodyState s k inv).running = true := by
  obtain ⟨_, p2, p3, p4, p5, p6, _⟩ := prep_facts s k inv g
  obtain ⟨e1, e2, e3, e4, e5, e6, _, _, _⟩ := enter_facts (prep s k inv) k inv
  unfold bodyState
  refine ⟨e1, by rw [e3, p2], e6 p3, by rw [e4, p4], ?_, ?_, e2⟩
  · intro hb
    rw [(eff_fields s k inv).2.2.2.2.2.2.2] at hb
    simp only [Bool.or_eq_false_iff] at hb
    have hd : (!inv.bg && (prep s k inv).cancelled.contains (ctxOf k inv)) = false := by
      have := hb.2; unfold dead at this; rw [← p4] at this; exact this
    rw [hb.1] at hd
    refine ⟨by rw [e5, hb.1, hd]; simp, ?_⟩
    rw [e4]
    simpa using hd
  · rw [enter_cur _ _ _ p6]
    unfold curGen genOf
    rw [p5]

theorem fires_leafStart (b : St) (d bump : Nat) :
    fires { b with fp := b.fp + d + 1, acc := b.acc + bump } = fires b := by
  funext i; rfl

/-- the state at the leaf of an invocation with context `c`: is `halt` set, and is the
    invocation's own context cancelled -/
theorem leaf_facts (b : St) (c : Nat) (inv : Inv) (hh : b.halt = false)
    (hn : inv.bg = false → c ∉ b.cancelled) (ha : inv.bg = false → c ∈ b.armed) :
    (leaf b c inv).acc = b.acc + inv.bump ∧
    (leaf b c inv).fp = b.fp + inv.depth + 1 ∧
    (leaf b c inv).running = b.running ∧
    (leaf b c inv).halt = (ownCancel inv || (others c inv.during).any (fires b)) ∧
    ((leaf b c inv).cancelled.contains c = (ownCancel inv || b.cancelled.contains c)) ∧
    (leaf b c inv).cur = b.cur ∧ (leaf b c inv).loaded = b.loaded ∧
    (leaf b c inv).startCount = b.startCount ∧ (leaf b c inv).gone = b.gone := by
  -- the state after the during-cancellations
  let s1 : St := { b with fp := b.fp + inv.depth + 1, acc := b.acc + inv.bump }
  let s2 := cancelAll s1 (others c inv.during)
  have hcore : sameCore s2 s1 := cancelAll_sameCore s1 _
  obtain ⟨_, hld, hcur, _, hgone⟩ := cancelAll_code s1 (others c inv.during)
  have hhalt : s2.halt = (others c inv.during).any (fires b) := by
    show (cancelAll s1 _).halt = _
    rw [cancelAll_halt, fires_leafStart]
    show (b.halt || _) = _
    rw [hh]; simp
  have hcont : s2.cancelled.contains c = b.cancelled.contains c :=
    cancelAll_others_contains s1 c inv.during
  by_cases hown : inv.beh = .selfCancel ∧ inv.bg = false
  · -- the invocation cancels its own context: its own watcher fires
    have hoc : ownCancel inv = true := by unfold ownCancel; simp [hown.1, hown.2]
    have hk2 : c ∉ s2.cancelled := by
      have : s2.cancelled.contains c = false := by
        rw [hcont]; simpa using hn hown.2
      simpa using this
    have hkarmed : c ∈ s2.armed := by
      apply cancelAll_armed_keep s1 _ c (ha hown.2)
      intro h; exact mem_others c _ c h rfl
    have hf : fires s2 c = true := (fires_iff s2 c).2 ⟨hkarmed, hk2⟩
    have hleaf : leaf b c inv = cancel s2 c := by
      unfold leaf; simp only [hown, and_self, ↓reduceIte]; rfl
    rw [hleaf, cancel_fires s2 c hf, hoc]
    exact ⟨hcore.2.2.2.2.2.2, hcore.2.2.2.1, hcore.1, by simp, by simp, hcur, hld, hcore.2.1, hgone⟩
  · have hoc : ownCancel inv = false := by
      unfold ownCancel
      cases hb : inv.beh <;> cases hg : inv.bg <;> simp_all
    have hleaf : leaf b c inv = s2 := by
      unfold leaf; simp only [hown, ↓reduceIte]; rfl
    rw [hleaf, hoc]
    exact ⟨hcore.2.2.2.2.2.2, hcore.2.2.2.1, hcore.1, by rw [hhalt]; simp, by rw [hcont]; simp,
      hcur, hld, hcore.2.1, hgone⟩

/-- `invoke` under the invariant: never refused; stopped at once by a dead context, or the body runs -/
theorem invoke_eq (s : St) (k : Nat) (inv : Inv) (g : Good s k) :
    invoke s k inv =
      if cut s k inv then
        (cutState (bodyState s k inv) inv, .errCanceled)
      else ({ (core (bodyState s k inv) (ctxOf k inv) (eff s k inv)).1 with running := false },
            (core (bodyState s k inv) (ctxOf k inv) (eff s k inv)).2) := by
  have hp := (prep_facts s k inv g).1
  unfold invoke
  simp [hp]

theorem invoke_body (s : St) (k : Nat) (inv : Inv) (g : Good s k) (hc : cut s k inv = false) :
    invoke s k inv =
      ({ (core (bodyState s k inv) (ctxOf k inv) (eff s k inv)).1 with running := false },
       (core (bodyState s k inv) (ctxOf k inv) (eff s k inv)).2) := by
  rw [invoke_eq s k inv g, hc]; rfl

/-- the Spec never yields the two outcomes that only a harmed invocation produces -/
theorem spec_ne (inv : Inv) (a g : Nat) (d : Bool) :
    specOutcome inv a g d ≠ .errImport ∧ specOutcome inv a g d ≠ .okHook := by
  unfold specOutcome
  split
  · exact ⟨by simp, by simp⟩
  · unfold behOutcome
    cases inv.beh <;> exact ⟨by simp, by simp⟩

/-- no script ending yields `context.Canceled` by itself -/
theorem beh_ne_canceled (b : Beh) (v a g : Nat) : behOutcome b v a g ≠ .errCanceled := by
  unfold behOutcome; cases b <;> simp

/-- what ends a run inside the module's top-level code yields the outcome the Spec demands -/
theorem modEnd_outcome (s : St) (c : Nat) (inv : Inv) (h : modEnds s inv = true) :
    (modEnd s c inv).2 = specOutcome inv s.acc s.cur false := by
  unfold modEnd specOutcome
  simp only
  cases hoc : ownCancel inv with
  | true => simp
  | false =>
    simp only [Bool.false_eq_true, ↓reduceIte, Bool.or_self]
    unfold modEnds at h
    rw [hoc] at h
    unfold behOutcome
    cases hb : inv.beh <;> simp_all

/-- ... and leaves the frame pointer, the running flag and the wrapper cache alone -/
theorem modEnd_facts (s : St) (c : Nat) (inv : Inv) :
    (modEnd s c inv).1.fp = s.fp ∧ (modEnd s c inv).1.startCount = s.startCount := by
  unfold modEnd
  simp only
  cases ownCancel inv with
  | true =>
    simp only [↓reduceIte]
    exact ⟨(cancel_sameCore s c).2.2.2.1, (cancel_sameCore s c).2.1⟩
  | false =>
    simp only [Bool.false_eq_true, ↓reduceIte]
    exact ⟨trivial, trivial⟩

theorem ownCancel_eff_dead (s : St) (k : Nat) (inv : Inv) (hd : dead s k inv = true) :
    ownCancel (eff s k inv) = false := by
  unfold ownCancel
  rw [(eff_fields s k inv).2.2.2.2.2.2.2, hd]; simp

/-- **One invocation, any state an arbitrary history can leave behind.**  Its outcome is
    determined by: whether its own context is already cancelled (and, for `RunCode` on a used
    VM, whether the reset wipes that cancellation), whether the import of a global module
    fails, whether a stale watcher fires, and otherwise the Spec (own code AS IT IS NOW,
    arguments, current globals, own context) - in particular it does not depend on whether the
    file module is cached, on where (module top-level code or leaf) the run ends, on which
    other invocations used the same context object, or on whether the code object was run
    before it grew. -/
theorem step_outcome (s : St) (k : Nat) (inv : Inv) (g : Good s k) :
    (invoke s k inv).2 =
      if cut s k inv then .errCanceled
      else if importFails s k inv then .errImport
      else if lostFires s k inv then
        (if staleFires s k inv || lostImport s k inv then .errCanceled
         else behOutcome inv.beh inv.v (s.acc + inv.bump) (curGen s k inv))
      else if staleFires s k inv && !ownCancel inv then .okHook
      else specAt s k inv := by
  cases hc : cut s k inv with
  | true => rw [invoke_eq s k inv g, hc]; rfl
  | false =>
    rw [invoke_body s k inv g hc]
    simp only [Bool.false_eq_true, ↓reduceIte]
    obtain ⟨b1, b2, _, b4, b5, b6, _⟩ := bodyState_facts s k inv g
    obtain ⟨f1, f2, f3, f4, f5, f6, f7, f8⟩ := eff_fields s k inv
    have hgone := dead_eq s k inv g
    by_cases himp : inv.imp = true ∧ (bodyState s k inv).mods = false
    · have hf : importFails s k inv = true := by unfold importFails; simp [hc, himp.1, himp.2]
      rw [hf]; unfold core; simp [f5, himp.1, himp.2]
    · have hf : importFails s k inv = false := by
        unfold importFails
        cases h1 : inv.imp <;> cases h2 : (bodyState s k inv).mods <;> simp_all
      rw [hf]
      simp only [Bool.false_eq_true, ↓reduceIte]
      have himp' : ¬((eff s k inv).imp = true ∧ (bodyState s k inv).mods = false) := by
        rw [f5]; exact himp
      have hn : (eff s k inv).bg = false → ctxOf k inv ∉ (bodyState s k inv).cancelled :=
        fun h => (b5 h).2
      have ha : (eff s k inv).bg = false → ctxOf k inv ∈ (bodyState s k inv).armed :=
        fun h => (b5 h).1
      obtain ⟨l1, _, _, l4, l5, l6, _, _, l9⟩ :=
        leaf_facts (bodyState s k inv) (ctxOf k inv) (eff s k inv) b1 hn ha
      have hmr : modRuns (bodyState s k inv) (eff s k inv) = modRuns (bodyState s k inv) inv := by
        unfold eff; split <;> rfl
      by_cases gi : (bodyState s k inv).gone = true ∧
          modRuns (bodyState s k inv) (eff s k inv) = true ∧ (bodyState s k inv).icache = false
      · -- the importer gives up with the error of the dead context
        have hd : dead s k inv = true := by rw [← hgone]; exact gi.1
        have hl : lostFires s k inv = true := by
          unfold lostFires; unfold cut at hc; rw [hd] at hc ⊢; simpa using hc
        have hli : lostImport s k inv = true := by
          unfold lostImport; rw [hc, hf, hd, ← hmr, gi.2.1, gi.2.2]; rfl
        rw [hl, hli]
        unfold core
        simp only [himp', gi, and_self, ↓reduceIte, Bool.or_true]
      have hli0 : (dead s k inv && modRuns (bodyState s k inv) inv &&
          !(bodyState s k inv).icache) = false := by
        rw [← hgone, ← hmr]
        cases h1 : (bodyState s k inv).gone <;>
          cases h2 : modRuns (bodyState s k inv) (eff s k inv) <;>
          cases h3 : (bodyState s k inv).icache <;> simp_all
      have hli : lostImport s k inv = false := by
        unfold lostImport
        rw [hli0]; simp
      rw [hli]
      simp only [Bool.or_false]
      cases hme : modEnds (bodyState s k inv) (eff s k inv) with
      | true =>
        have hcore : (core (bodyState s k inv) (ctxOf k inv) (eff s k inv)).2
            = (modEnd (bodyState s k inv) (ctxOf k inv) (eff s k inv)).2 := by
          unfold core; simp only [himp', gi, hme, ↓reduceIte]
        have hs : staleFires s k inv = false := by unfold staleFires; rw [hme]; simp
        rw [hcore, hs, modEnd_outcome _ _ _ hme, b2, b6]
        simp only [Bool.false_eq_true, ↓reduceIte, Bool.false_and]
        cases hd : dead s k inv with
        | false =>
          have hl : lostFires s k inv = false := by unfold lostFires; rw [hd]; rfl
          have he : eff s k inv = inv := by unfold eff; simp [hd]
          rw [hl, he]; simp only [Bool.false_eq_true, ↓reduceIte]
          unfold specAt; rw [hd]
        | true =>
          have hl : lostFires s k inv = true := by
            unfold lostFires; unfold cut at hc; rw [hd] at hc ⊢; simpa using hc
          rw [hl]; simp only [↓reduceIte]
          unfold specOutcome
          rw [ownCancel_eff_dead s k inv hd, f2, f3, f4]; simp
      | false =>
        have hcore : (core (bodyState s k inv) (ctxOf k inv) (eff s k inv)).2
            = leafOutcome (leaf (bodyState s k inv) (ctxOf k inv) (eff s k inv)) (ctxOf k inv)
                (eff s k inv) := by
          unfold core; simp only [himp', gi, hme, Bool.false_eq_true, ↓reduceIte]
        have hs : staleFires s k inv =
            (others (ctxOf k inv) inv.during).any (fires (bodyState s k inv)) := by
          unfold staleFires; rw [hc, hf, hme, hli0]; simp
        rw [hcore]
        unfold leafOutcome
        rw [l4, l5, l1, l6, l9, b2, b6, hgone, f2, f3, f4, f6, ← hs]
        cases hd : dead s k inv with
        | false =>
          have hl : lostFires s k inv = false := by unfold lostFires; rw [hd]; rfl
          have he : eff s k inv = inv := by unfold eff; simp [hd]
          have hcc : (!inv.bg && (bodyState s k inv).cancelled.contains (ctxOf k inv)) = false := by
            rw [b4]; unfold dead at hd; exact hd
          rw [hl, he]
          unfold specAt specOutcome
          rw [hd]
          have hob : inv.bg = true → ownCancel inv = false := by
            intro h; unfold ownCancel; simp [h]
          cases hoc : ownCancel inv <;> cases staleFires s k inv <;> cases hbg : inv.bg <;>
            simp_all
        | true =>
          have hl : lostFires s k inv = true := by
            unfold lostFires; unfold cut at hc; rw [hd] at hc ⊢; simpa using hc
          rw [hl, ownCancel_eff_dead s k inv hd]
          cases staleFires s k inv <;> simp

theorem bodyState_started (s : St) (k : Nat) (inv : Inv) :
    (bodyState s k inv).startCount = (prep s k inv).startCount + 1 :=
  (enter_facts (prep s k inv) k inv).2.2.2.2.2.2.2.1

/-- the invariant is re-established by every invocation, however (and wherever) it ends -/
theorem step_good (s : St) (k : Nat) (inv : Inv) (g : Good s k) :
    Good (invoke s k inv).1 (k + 1) := by
  obtain ⟨b1, _, b3, b4, b5, _, _⟩ := bodyState_facts s k inv g
  have hsc := bodyState_started s k inv
  cases hc : cut s k inv with
  | true =>
    rw [invoke_eq s k inv g, hc]
    exact ⟨rfl, b3, fun h => by
      have : (bodyState s k inv).startCount = 0 := h
      omega⟩
  | false =>
    rw [invoke_body s k inv g hc]
    have f5 := (eff_fields s k inv).2.2.2.2.1
    have f7 := (eff_fields s k inv).2.2.2.2.2.2.1
    by_cases himp : (eff s k inv).imp = true ∧ (bodyState s k inv).mods = false
    · unfold core
      simp only [himp, and_self, ↓reduceIte]
      exact ⟨rfl, b3, fun h => by
        have : (bodyState s k inv).startCount = 0 := h
        omega⟩
    · by_cases gi : (bodyState s k inv).gone = true ∧
          modRuns (bodyState s k inv) (eff s k inv) = true ∧ (bodyState s k inv).icache = false
      · unfold core
        simp only [himp, gi, and_self, ↓reduceIte]
        exact ⟨rfl, b3, fun h => by
          have : (bodyState s k inv).startCount = 0 := h
          omega⟩
      cases hme : modEnds (bodyState s k inv) (eff s k inv) with
      | true =>
        obtain ⟨m1, m2⟩ := modEnd_facts (bodyState s k inv) (ctxOf k inv) (eff s k inv)
        have hcore : core (bodyState s k inv) (ctxOf k inv) (eff s k inv)
            = modEnd (bodyState s k inv) (ctxOf k inv) (eff s k inv) := by
          unfold core; simp only [himp, gi, hme, ↓reduceIte]
        rw [hcore]
        refine ⟨rfl, ?_, ?_⟩
        · show (modEnd (bodyState s k inv) (ctxOf k inv) (eff s k inv)).1.fp = 0
          rw [m1, b3]
        · intro h
          have : (modEnd (bodyState s k inv) (ctxOf k inv) (eff s k inv)).1.startCount = 0 := h
          omega
      | false =>
        have hn : (eff s k inv).bg = false → ctxOf k inv ∉ (bodyState s k inv).cancelled :=
          fun h => (b5 h).2
        have ha : (eff s k inv).bg = false → ctxOf k inv ∈ (bodyState s k inv).armed :=
          fun h => (b5 h).1
        obtain ⟨_, l2, _, _, _, _, _, l8, _⟩ :=
          leaf_facts (bodyState s k inv) (ctxOf k inv) (eff s k inv) b1 hn ha
        unfold core
        simp only [himp, gi, hme, Bool.false_eq_true, ↓reduceIte]
        refine ⟨rfl, ?_, ?_⟩
        · show (leaf (bodyState s k inv) (ctxOf k inv) (eff s k inv)).fp
              - ((eff s k inv).depth + 1) = 0
          rw [l2, b3]; omega
        · intro h
          have : (leaf (bodyState s k inv) (ctxOf k inv) (eff s k inv)).startCount = 0 := h
          omega

/-- while the host callback runs the VM is marked running: a re-entrant Run/RunCode/Call
    from the callback is refused -/
theorem leaf_running (s : St) (k : Nat) (inv : Inv) (g : Good s k) :
    (leaf (bodyState s k inv) (ctxOf k inv) (eff s k inv)).running = true := by
  obtain ⟨b1, _, _, _, b5, _, b7⟩ := bodyState_facts s k inv g
  obtain ⟨_, _, l3, _⟩ := leaf_facts (bodyState s k inv) (ctxOf k inv) (eff s k inv) b1
    (fun h => (b5 h).2) (fun h => (b5 h).1)
  rw [l3]
  exact b7

/-! ### Nothing but `RunCode`'s look-up reads the wrapper cache, and nothing but the look-up
reads which code OBJECT an invocation is handed -/

/-- forget which code objects are wrapped -/
def forget (s : St) : St := { s with loaded := [] }

/-- forget which code object the invocation re-supplies -/
def freshCode (inv : Inv) : Inv := { inv with same := none }

theorem forget_loaded (s : St) (l : List (Nat × Nat)) : forget { s with loaded := l } = forget s := rfl

theorem eq_of_forget {a b : St} (h : forget a = forget b) : b = { a with loaded := b.loaded } := by
  cases a; cases b
  simp only [forget, St.mk.injEq] at h ⊢
  simp [h]

theorem setup_loaded (s : St) (l : List (Nat × Nat)) :
    setup { s with loaded := l } = { setup s with loaded := l } := by
  unfold setup
  simp only
  split <;> rfl

theorem prep_loaded (s : St) (k : Nat) (inv : Inv) (l : List (Nat × Nat)) :
    prep { s with loaded := l } k inv = { prep s k inv with loaded := l } := by
  have he : events { s with loaded := l } inv = { events s inv with loaded := l } := by
    unfold events
    exact cancelAll_loaded { s with grown := inv.grows ++ s.grown } inv.pre l
  unfold prep preState
  simp only
  rw [he]
  split
  · exact setup_loaded _ _
  · rfl

theorem leaf_loaded (s : St) (c : Nat) (inv : Inv) (l : List (Nat × Nat)) :
    leaf { s with loaded := l } c inv = { leaf s c inv with loaded := l } := by
  unfold leaf
  simp only
  have h := cancelAll_loaded { s with fp := s.fp + inv.depth + 1, acc := s.acc + inv.bump }
    (others c inv.during) l
  split
  · exact (congrArg (fun x => cancel x c) h).trans (cancel_loaded _ _ _)
  · exact h

theorem modEnd_loaded (s : St) (c : Nat) (inv : Inv) (l : List (Nat × Nat)) :
    modEnd { s with loaded := l } c inv =
      ({ (modEnd s c inv).1 with loaded := l }, (modEnd s c inv).2) := by
  unfold modEnd
  dsimp only
  cases ownCancel inv
  · rfl
  · simp only [↓reduceIte]
    rw [cancel_loaded]

theorem core_loaded (s : St) (c : Nat) (inv : Inv) (l : List (Nat × Nat)) :
    core { s with loaded := l } c inv = ({ (core s c inv).1 with loaded := l }, (core s c inv).2) := by
  have hm : modEnds { s with loaded := l } inv = modEnds s inv := rfl
  have hr : ∀ o, modResidue { s with loaded := l } inv o = modResidue s inv o := fun _ => rfl
  unfold core
  dsimp only
  rw [hm, leaf_loaded, modEnd_loaded]
  by_cases h1 : inv.imp = true ∧ s.mods = false
  · simp only [h1, and_self, ↓reduceIte]
  · simp only [h1, ↓reduceIte]
    have hmr : modRuns { s with loaded := l } inv = modRuns s inv := rfl
    rw [hmr]
    by_cases h3 : s.gone = true ∧ modRuns s inv = true ∧ s.icache = false
    · simp only [h3, and_self, ↓reduceIte]
    · simp only [h3, ↓reduceIte]
      cases h2 : modEnds s inv
      · simp only [Bool.false_eq_true, ↓reduceIte]
        rfl
      · simp only [↓reduceIte]

/-- the state in which the body starts, up to the wrapper cache, is the same whatever the
    cache held and whichever code object (with the same current contents) is handed in -/
theorem enter_forget (p : St) (k : Nat) (inv : Inv) (l : List (Nat × Nat))
    (hc : p.startCount = 0 → p.loaded = []) (hc' : p.startCount = 0 → l = [])
    (hg : inv.kind = .runCode → genOf p (codeOf k (freshCode inv)) = genOf p (codeOf k inv)) :
    forget (enter { p with loaded := l } k (freshCode inv)) = forget (enter p k inv) := by
  unfold enter
  simp only
  by_cases hk : inv.kind = .runCode
  · have hk' : (freshCode inv).kind = .runCode := hk
    have hgk := hg hk
    simp only [hk, hk', true_and, ↓reduceIte]
    by_cases h1 : 0 < p.startCount
    · simp [h1, reset, start, forget, genOf, ctxOf, freshCode] at hgk ⊢
      simp [genOf, codeOf, freshCode] at hgk
      exact hgk
    · have h0 : p.startCount = 0 := by omega
      simp [h0, start, forget, genOf, hc h0, hc' h0, ctxOf, freshCode] at hgk ⊢
      simp [genOf, codeOf, freshCode] at hgk
      exact hgk
  · have hk' : ¬ (freshCode inv).kind = .runCode := hk
    simp only [hk, hk', false_and, ↓reduceIte]
    rfl

/-- **One invocation never reads the wrapper cache nor the code object's identity** (only
    the code object's current contents): from states that differ in the cache only, handing in
    a newly compiled code object instead of a re-supplied one with the same current contents
    gives the same outcome and the same state up to the cache. -/
theorem invoke_freshCode (s : St) (l : List (Nat × Nat)) (k : Nat) (inv : Inv) (g : Good s k)
    (g' : Good { s with loaded := l } k)
    (hg : curGen s k (freshCode inv) = curGen s k inv) :
    forget (invoke { s with loaded := l } k (freshCode inv)).1 = forget (invoke s k inv).1 ∧
    (invoke { s with loaded := l } k (freshCode inv)).2 = (invoke s k inv).2 := by
  obtain ⟨_, _, _, _, p5, p6, _⟩ := prep_facts s k inv g
  have hprep : prep { s with loaded := l } k (freshCode inv) = { prep s k inv with loaded := l } :=
    prep_loaded s k inv l
  have hev : events { s with loaded := l } inv = { events s inv with loaded := l } := by
    unfold events
    exact cancelAll_loaded { s with grown := inv.grows ++ s.grown } inv.pre l
  have hdead : dead { s with loaded := l } k (freshCode inv) = dead s k inv := by
    unfold dead preState
    show (!inv.bg && (events { s with loaded := l } inv).cancelled.contains (ctxOf k inv)) = _
    rw [hev]
  have hcut : cut { s with loaded := l } k (freshCode inv) = cut s k inv := by
    unfold cut; rw [hdead]; rfl
  have heff : eff { s with loaded := l } k (freshCode inv) = freshCode (eff s k inv) := by
    unfold eff; rw [hdead]; split <;> rfl
  have hpc : (prep s k inv).startCount = 0 → l = [] := by
    intro h0
    have := (prep_facts _ k (freshCode inv) g').2.2.2.2.2.1
    rw [hprep] at this
    exact this h0
  have hbody : forget (bodyState { s with loaded := l } k (freshCode inv)) = forget (bodyState s k inv) := by
    unfold bodyState
    rw [hprep]
    apply enter_forget _ _ _ _ p6 hpc
    intro hk
    unfold curGen at hg
    have hk' : (freshCode inv).kind = .runCode := hk
    rw [if_pos hk, if_pos hk'] at hg
    unfold genOf at hg ⊢
    rw [p5]
    exact hg
  have hb := eq_of_forget hbody.symm
  rw [invoke_eq _ k (freshCode inv) g', invoke_eq s k inv g, hcut]
  split
  · constructor
    · rw [hb]; rfl
    · rfl
  · rw [heff, hb]
    have hcc : ∀ (b : St) (c : Nat) (e : Inv), core b c (freshCode e) = core b c e := fun _ _ _ => rfl
    show forget _ = forget _ ∧ _
    rw [hcc, core_loaded]
    exact ⟨rfl, rfl⟩

/-- an invocation changes the contents of code objects only through its `grows` events -/
theorem invoke_grown (s : St) (k : Nat) (inv : Inv) (g : Good s k) :
    (invoke s k inv).1.grown = inv.grows ++ s.grown := by
  have hb : (bodyState s k inv).grown = inv.grows ++ s.grown := by
    unfold bodyState
    rw [(enter_facts (prep s k inv) k inv).2.2.2.2.2.2.1, (prep_facts s k inv g).2.2.2.2.1]
    exact (events_facts s inv).2.2.2.2.2
  rw [invoke_eq s k inv g]
  split
  · exact hb
  · show (core (bodyState s k inv) (ctxOf k inv) (eff s k inv)).1.grown = _
    unfold core
    split
    · exact hb
    · split
      · exact hb
      split
      · unfold modEnd
        dsimp only
        split
        · rw [(cancel_code _ _).1]; exact hb
        · exact hb
      · show (leaf (bodyState s k inv) (ctxOf k inv) (eff s k inv)).grown = _
        unfold leaf
        dsimp only
        split
        · rw [(cancel_code _ _).1, (cancelAll_code _ _).1]; exact hb
        · rw [(cancelAll_code _ _).1]; exact hb

/-! ### Look-ups by name: slots -/

/-- the symbol table of a wrapper, in slot order -/
def names (sl : Slots) : List GName := sl.map (·.1)

@[simp] theorem names_nil : names [] = [] := rfl
@[simp] theorem names_cons (m : GName) (v : GVal) (rest : Slots) :
    names ((m, v) :: rest) = m :: names rest := rfl
@[simp] theorem scan_nil (n : GName) : scan [] n = .notFound := rfl
theorem scan_cons (m : GName) (v : GVal) (rest : Slots) (n : GName) :
    scan ((m, v) :: rest) n = if m = n then .val v else scan rest n := rfl
@[simp] theorem store_nil (n : GName) (x : GVal) : store [] n x = [] := rfl
theorem store_cons (m : GName) (v : GVal) (rest : Slots) (n : GName) (x : GVal) :
    store ((m, v) :: rest) n x = if m = n then (m, x) :: rest else (m, v) :: store rest n x := rfl

theorem scan_notFound_of_not_mem (sl : Slots) (n : GName) (h : n ∉ names sl) : scan sl n = .notFound := by
  induction sl with
  | nil => rfl
  | cons a rest ih =>
    obtain ⟨m, v⟩ := a
    simp only [names_cons, List.mem_cons, not_or] at h
    rw [scan_cons, if_neg (fun e => h.1 e.symm)]
    exact ih h.2

/-- `StoreGlobal` then `Get`: the slot the compiler resolved the name to is the slot `Get` finds -/
theorem scan_store (sl : Slots) (m n : GName) (x : GVal) :
    scan (store sl m x) n = if m = n ∧ n ∈ names sl then .val x else scan sl n := by
  induction sl with
  | nil => simp
  | cons a rest ih =>
    obtain ⟨a, v⟩ := a
    rw [store_cons]
    by_cases ham : a = m
    · subst ham
      simp only [↓reduceIte, scan_cons, names_cons, List.mem_cons]
      by_cases han : a = n
      · subst han; simp
      · simp [han]
    · simp only [ham, ↓reduceIte, scan_cons, names_cons, List.mem_cons, ih]
      by_cases han : a = n
      · subst han
        have : ¬ (m = a) := fun e => ham e.symm
        simp [this]
      · have : ¬ (n = a) := fun e => han e.symm
        simp [han, this]

theorem names_store (sl : Slots) (m : GName) (x : GVal) : names (store sl m x) = names sl := by
  induction sl with
  | nil => rfl
  | cons a rest ih =>
    obtain ⟨a, v⟩ := a
    rw [store_cons]
    split
    · rfl
    · simp only [names_cons, ih]

theorem names_defs (f : GName → GVal) (ns : List GName) (sl : Slots) :
    names (ns.foldl (fun sl m => store sl m (f m)) sl) = names sl := by
  induction ns generalizing sl with
  | nil => rfl
  | cons m t ih => simp only [List.foldl_cons]; rw [ih, names_store]

/-- executing the definitions `ns`: every defined name that has a slot holds its value, every
    other slot is untouched -/
theorem scan_defs (f : GName → GVal) (ns : List GName) (sl : Slots) (n : GName) :
    scan (ns.foldl (fun sl m => store sl m (f m)) sl) n =
      if n ∈ ns ∧ n ∈ names sl then .val (f n) else scan sl n := by
  induction ns generalizing sl with
  | nil => simp
  | cons m t ih =>
    simp only [List.foldl_cons]
    rw [ih, names_store, scan_store]
    by_cases hm : m = n
    · subst hm
      by_cases hin : m ∈ names sl
      · simp [hin]
      · simp [hin]
    · have : ¬ (n = m) := fun e => hm e.symm
      simp [hm, this]

theorem scan_init (tbl : List GName) (n : GName) :
    scan (tbl.map (fun m => (m, initVal m))) n = if n ∈ tbl then .val (initVal n) else .notFound := by
  induction tbl with
  | nil => simp
  | cons a t ih =>
    simp only [List.map_cons, List.mem_cons, scan_cons, ih]
    by_cases han : a = n
    · subst han; simp
    · have : ¬ (n = a) := fun e => han e.symm
      simp [han, this]

theorem names_init (tbl : List GName) : names (tbl.map (fun m => (m, initVal m))) = tbl := by
  induction tbl with
  | nil => rfl
  | cons a t ih => simp only [List.map_cons, names_cons, ih]

theorem names_append (a b : Slots) : names (a ++ b) = names a ++ names b := by
  simp [names]

theorem scan_append (a b : Slots) (n : GName) :
    scan (a ++ b) n = if n ∈ names a then scan a n else scan b n := by
  induction a with
  | nil => simp
  | cons x t ih =>
    obtain ⟨m, v⟩ := x
    simp only [List.cons_append, names_cons, List.mem_cons, scan_cons, ih]
    by_cases hm : m = n
    · subst hm; simp
    · have : ¬ (n = m) := fun e => hm e.symm
      simp [hm, this]

/-! ### Look-ups by name: the wrappers of a reused VM -/

/-- `Get` on a freshly wrapped code object: the closed form -/
theorem scan_fresh_code (o : Owner) (lay : Lay) (bound : Bool) (n : GName) :
    scan (if bound then execDefs (loadRoot o (codeTbl lay)) (defNames lay)
          else loadRoot o (codeTbl lay)).slots n = codeGet lay o bound n := by
  have hsub : n ∈ defNames lay → n ∈ codeTbl lay := fun h => by
    unfold codeTbl; exact List.mem_append_right _ h
  cases bound with
  | false =>
    simp only [Bool.false_eq_true, ↓reduceIte, loadRoot, scan_init, codeGet, Bool.false_and]
  | true =>
    simp only [↓reduceIte, execDefs, loadRoot, scan_defs, names_init, scan_init, codeGet,
      Bool.true_and, decide_eq_true_eq]
    by_cases h1 : n ∈ defNames lay
    · simp [h1, hsub h1]
    · simp [h1]

theorem names_fresh_code (o : Owner) (lay : Lay) (bound : Bool) :
    names (if bound then execDefs (loadRoot o (codeTbl lay)) (defNames lay)
           else loadRoot o (codeTbl lay)).slots = codeTbl lay := by
  cases bound <;> simp [execDefs, loadRoot, names_defs, names_init]

theorem ginvoke_runCode (g : GSt) (s : St) (k : Nat) (inv : Inv) (lay : Lay)
    (hk : inv.kind = .runCode) (hq : (prep s k inv).running = false) :
    ginvoke g s k inv lay =
      { (if 0 < (prep s k inv).startCount then greset g else g) with
        codeW := some (if cut s k inv then
            loadCode (if 0 < (prep s k inv).startCount then greset g else g) (.code (codeOf k inv)) lay
          else execDefs (loadCode (if 0 < (prep s k inv).startCount then greset g else g)
            (.code (codeOf k inv)) lay) (defNames lay)),
        active := some false, cur := 0 } := by
  unfold ginvoke
  simp [hk, hq]

theorem ginvoke_call (g : GSt) (s : St) (k : Nat) (inv : Inv) (lay : Lay)
    (hk : inv.kind = .call) (hq : (prep s k inv).running = false) :
    ginvoke g s k inv lay =
      if (preState s k inv).hasCode = false then gsetup g (preState s k inv) lay else g := by
  unfold ginvoke
  simp only [hk, hq]
  split <;> simp_all

theorem ginvoke_run (g : GSt) (s : St) (k : Nat) (inv : Inv) (lay : Lay)
    (hk : inv.kind = .run) (hq : (prep s k inv).running = false) :
    ginvoke g s k inv lay =
      { g with
        mainTbl := g.mainTbl ++ snippetNames k,
        mainW := some (if cut s k inv then
            (match g.mainW with
              | some old => reload old (g.mainTbl ++ snippetNames k)
              | none => loadRoot .main (g.mainTbl ++ snippetNames k))
          else execDefs (match g.mainW with
              | some old => reload old (g.mainTbl ++ snippetNames k)
              | none => loadRoot .main (g.mainTbl ++ snippetNames k)) (snippetNames k)),
        active := some true, cur := k + 1 } := by
  obtain ⟨mt, mw, cw, ac, cu⟩ := g
  cases mw <;> simp [ginvoke, hk, hq]

/-- the invariant of the name storage between invocations (`k` = index of the next invocation):
    a VM that has never been started has wrapped nothing; the REPL compiler's table is the host's
    names followed by names of snippets of EARLIER invocations; the wrapper of the main code, when
    there is one, belongs to main, its table is a prefix of the compiler's and its host slots hold
    the host's objects -/
structure GGood (g : GSt) (s : St) (k : Nat) : Prop where
  cold : s.startCount = 0 → g.codeW = none ∧ g.mainW = none
  tbl : ∃ t, g.mainTbl = hostTbl 0 ++ t ∧ ∀ n ∈ t, ∃ j, j < k ∧ n ∈ snippetNames j
  wrap : ∀ w, g.mainW = some w → w.owner = .main ∧ (∃ t, g.mainTbl = names w.slots ++ t) ∧
          ∀ n ∈ hostTbl 0, scan w.slots n = .val (initVal n)

theorem ggood_fresh (acc k : Nat) : GGood {} (fresh acc) k :=
  ⟨fun _ => ⟨rfl, rfl⟩, ⟨[], by simp, by simp⟩, fun w h => by simp at h⟩

theorem prep_cold (s : St) (k : Nat) (inv : Inv) (g : Good s k)
    (h : ¬ 0 < (prep s k inv).startCount) : s.startCount = 0 := by
  have := (prep_facts s k inv g).2.2.2.2.2.2
  omega

/-- **after `RunCode` every name resolves in the code object it was handed, freshly wrapped**:
    nothing an earlier invocation loaded, defined or looked up is left -/
theorem get_after_runCode (g : GSt) (s : St) (k : Nat) (inv : Inv) (lay : Lay) (n : GName)
    (hg : Good s k) (gg : GGood g s k) (hk : inv.kind = .runCode) :
    get (ginvoke g s k inv lay) n = codeGet lay (.code (codeOf k inv)) (!cut s k inv) n ∧
    globalNames (ginvoke g s k inv lay) = codeTbl lay := by
  have hq := (prep_facts s k inv hg).1
  rw [ginvoke_runCode g s k inv lay hk hq]
  have hload : loadCode (if 0 < (prep s k inv).startCount then greset g else g)
      (.code (codeOf k inv)) lay = loadRoot (.code (codeOf k inv)) (codeTbl lay) := by
    by_cases h0 : 0 < (prep s k inv).startCount
    · simp [h0, greset, loadCode]
    · have := (gg.cold (prep_cold s k inv hg h0)).1
      simp [h0, loadCode, this]
  rw [hload]
  have e := scan_fresh_code (.code (codeOf k inv)) lay (!cut s k inv) n
  have e2 := names_fresh_code (.code (codeOf k inv)) lay (!cut s k inv)
  cases hc : cut s k inv <;> simp only [hc, Bool.not_true, Bool.not_false, Bool.false_eq_true,
    ↓reduceIte] at e e2 ⊢
  · exact ⟨e, e2⟩
  · exact ⟨e, e2⟩


/-- a `Call` on a VM without code: the names resolve in the definitions it loads, freshly wrapped -/
theorem get_after_setup (g : GSt) (s : St) (k : Nat) (inv : Inv) (lay : Lay) (n : GName)
    (hg : Good s k) (hk : inv.kind = .call) (hc : (preState s k inv).hasCode = false) :
    get (ginvoke g s k inv lay) n = codeGet lay .setup true n ∧
    globalNames (ginvoke g s k inv lay) = codeTbl lay := by
  have hq := (prep_facts s k inv hg).1
  rw [ginvoke_call g s k inv lay hk hq, if_pos hc]
  have e := scan_fresh_code .setup lay true n
  have e2 := names_fresh_code .setup lay true
  simp only [↓reduceIte] at e e2
  exact ⟨e, e2⟩

/-- **a `Call` of a function of the code an earlier invocation loaded leaves the name storage
    as it is**: every name resolves after the Call as it did before -/
theorem call_keeps_globals (g : GSt) (s : St) (k : Nat) (inv : Inv) (lay : Lay)
    (hg : Good s k) (hk : inv.kind = .call) (hc : (preState s k inv).hasCode = true) :
    ginvoke g s k inv lay = g := by
  have hq := (prep_facts s k inv hg).1
  rw [ginvoke_call g s k inv lay hk hq, if_neg (by simp [hc])]

theorem mem_snippetNames (k : Nat) (n : GName) :
    n ∈ snippetNames k ↔ n = .over (k + 1) ∨ n = .act (k + 1) := by
  simp [snippetNames]

theorem snippet_not_host (j : Nat) (n : GName) (h : n ∈ snippetNames j) : n ∉ hostTbl 0 := by
  rw [mem_snippetNames] at h
  rcases h with h | h <;> subst h <;> simp [hostTbl]

theorem ownName_snippet (k j : Nat) (n : GName) (h : n ∈ snippetNames j) (ho : ownName k n = true) :
    j = k := by
  rw [mem_snippetNames] at h
  rcases h with h | h <;> subst h <;> simpa [ownName] using ho

/-- the wrapper `Run` executes: main re-based on its old wrapper, or wrapped afresh -/
def runWrap (g : GSt) (k : Nat) : Wrap :=
  match g.mainW with
  | some old => reload old (g.mainTbl ++ snippetNames k)
  | none => loadRoot .main (g.mainTbl ++ snippetNames k)

theorem runWrap_facts (g : GSt) (s : St) (k : Nat) (gg : GGood g s k) :
    (runWrap g k).owner = .main ∧ names (runWrap g k).slots = g.mainTbl ++ snippetNames k ∧
    (∀ n ∈ hostTbl 0, scan (runWrap g k).slots n = .val (initVal n)) ∧
    (∀ n ∈ snippetNames k, scan (runWrap g k).slots n = .val .unbound) := by
  obtain ⟨t, ht, hts⟩ := gg.tbl
  have hfreshk : ∀ n ∈ snippetNames k, n ∉ g.mainTbl := by
    intro n hn hm
    rw [ht, List.mem_append] at hm
    rcases hm with hm | hm
    · exact snippet_not_host k n hn hm
    · obtain ⟨j, hj, hnj⟩ := hts n hm
      rw [mem_snippetNames] at hn hnj
      rcases hn with hn | hn <;> subst hn <;> simp at hnj <;> omega
  have hinit : ∀ n ∈ snippetNames k, initVal n = .unbound := by
    intro n hn; rw [mem_snippetNames] at hn; rcases hn with hn | hn <;> subst hn <;> rfl
  unfold runWrap
  cases hm : g.mainW with
  | none =>
    refine ⟨rfl, names_init _, ?_, ?_⟩
    · intro n hn
      have : n ∈ g.mainTbl ++ snippetNames k := by rw [ht]; simp [hn]
      simp only [loadRoot, scan_init, this, ↓reduceIte]
    · intro n hn
      have : n ∈ g.mainTbl ++ snippetNames k := by simp [hn]
      simp only [loadRoot, scan_init, this, ↓reduceIte, hinit n hn]
  | some old =>
    obtain ⟨ho, ⟨t', ht'⟩, hh⟩ := gg.wrap old hm
    have hlen : old.slots.length = (names old.slots).length := by simp [names]
    have hdrop : List.drop old.slots.length (g.mainTbl ++ snippetNames k) = t' ++ snippetNames k := by
      rw [ht', hlen, List.append_assoc, List.drop_left]
    refine ⟨ho, ?_, ?_, ?_⟩
    · simp only [reload, hdrop, names_append, names_init]
      rw [ht', List.append_assoc]
    · intro n hn
      have hin : n ∈ names old.slots := by
        by_cases hin : n ∈ names old.slots
        · exact hin
        · have := hh n hn
          rw [scan_notFound_of_not_mem _ _ hin] at this
          cases this
      simp only [reload, scan_append, hin, ↓reduceIte, hh n hn]
    · intro n hn
      have hnot : n ∉ names old.slots := fun hin => hfreshk n hn (by rw [ht']; simp [hin])
      have hmem : n ∈ t' ++ snippetNames k := by simp [hn]
      simp only [reload, hdrop, scan_append, hnot, ↓reduceIte, scan_init, hmem, hinit n hn]

/-- **after `Run` the names of its own snippet, the host's names and every name that is not a
    REPL snippet's resolve as on a fresh VM that ran the snippet alone** (the names of EARLIER
    snippets are the REPL's memory, by design) -/
theorem get_after_run (g : GSt) (s : St) (k : Nat) (inv : Inv) (lay : Lay) (n : GName)
    (hg : Good s k) (gg : GGood g s k) (hk : inv.kind = .run) (ho : ownName k n = true) :
    get (ginvoke g s k inv lay) n = snippetGet k (!cut s k inv) n := by
  have hq := (prep_facts s k inv hg).1
  rw [ginvoke_run g s k inv lay hk hq]
  obtain ⟨w1, w2, w3, w4⟩ := runWrap_facts g s k gg
  obtain ⟨t, ht, hts⟩ := gg.tbl
  show scan (if cut s k inv then runWrap g k else execDefs (runWrap g k) (snippetNames k)).slots n = _
  unfold snippetGet
  by_cases hh : n ∈ hostTbl 0
  · have hns : n ∉ snippetNames k := fun h => snippet_not_host k n h hh
    cases cut s k inv <;> simp [hh, execDefs, scan_defs, hns, w3 n hh]
  · by_cases hs : n ∈ snippetNames k
    · have hin : n ∈ names (runWrap g k).slots := by rw [w2]; simp [hs]
      cases cut s k inv <;> simp [hh, hs, execDefs, scan_defs, hin, w4 n hs, w1]
    · have hnot : n ∉ names (runWrap g k).slots := by
        rw [w2, ht]
        intro hm
        simp only [List.mem_append] at hm
        rcases hm with (hm | hm) | hm
        · exact hh hm
        · obtain ⟨j, hj, hnj⟩ := hts n hm
          have := ownName_snippet k j n hnj ho
          omega
        · exact hs hm
      cases cut s k inv <;>
        simp [hh, hs, execDefs, scan_defs, scan_notFound_of_not_mem _ _ hnot]


/-- an invocation on a quiet VM always starts it -/
theorem invoke_started (s : St) (k : Nat) (inv : Inv) (g : Good s k) :
    0 < (invoke s k inv).1.startCount := by
  obtain ⟨b1, _, b3, b4, b5, _, _⟩ := bodyState_facts s k inv g
  have hsc := bodyState_started s k inv
  cases hc : cut s k inv with
  | true =>
    rw [invoke_eq s k inv g, hc]
    show 0 < (bodyState s k inv).startCount
    omega
  | false =>
    rw [invoke_body s k inv g hc]
    by_cases himp : (eff s k inv).imp = true ∧ (bodyState s k inv).mods = false
    · unfold core
      simp only [himp, and_self, ↓reduceIte]
      show 0 < (bodyState s k inv).startCount
      omega
    · by_cases gi : (bodyState s k inv).gone = true ∧
          modRuns (bodyState s k inv) (eff s k inv) = true ∧ (bodyState s k inv).icache = false
      · unfold core
        simp only [himp, gi, and_self, ↓reduceIte]
        show 0 < (bodyState s k inv).startCount
        omega
      cases hme : modEnds (bodyState s k inv) (eff s k inv) with
      | true =>
        obtain ⟨m1, m2⟩ := modEnd_facts (bodyState s k inv) (ctxOf k inv) (eff s k inv)
        have hcore : core (bodyState s k inv) (ctxOf k inv) (eff s k inv)
            = modEnd (bodyState s k inv) (ctxOf k inv) (eff s k inv) := by
          unfold core; simp only [himp, gi, hme, ↓reduceIte]
        rw [hcore]
        show 0 < (modEnd (bodyState s k inv) (ctxOf k inv) (eff s k inv)).1.startCount
        omega
      | false =>
        have hn : (eff s k inv).bg = false → ctxOf k inv ∉ (bodyState s k inv).cancelled :=
          fun h => (b5 h).2
        have ha : (eff s k inv).bg = false → ctxOf k inv ∈ (bodyState s k inv).armed :=
          fun h => (b5 h).1
        obtain ⟨_, l2, _, _, _, _, _, l8, _⟩ :=
          leaf_facts (bodyState s k inv) (ctxOf k inv) (eff s k inv) b1 hn ha
        unfold core
        simp only [himp, gi, hme, Bool.false_eq_true, ↓reduceIte]
        show 0 < (leaf (bodyState s k inv) (ctxOf k inv) (eff s k inv)).startCount
        omega


theorem ggood_of (g g' : GSt) (s s' : St) (k : Nat) (gg : GGood g s k) (hs : 0 < s'.startCount)
    (ht : g'.mainTbl = g.mainTbl) (hw : g'.mainW = g.mainW ∨ g'.mainW = none) :
    GGood g' s' (k + 1) := by
  obtain ⟨t, h1, h2⟩ := gg.tbl
  refine ⟨fun h => by omega, ⟨t, by rw [ht, h1], fun n hn => ?_⟩, fun w hw' => ?_⟩
  · obtain ⟨j, hj, hnj⟩ := h2 n hn
    exact ⟨j, by omega, hnj⟩
  · rcases hw with hw | hw
    · rw [hw] at hw'
      rw [ht]
      exact gg.wrap w hw'
    · rw [hw] at hw'; cases hw'

/-- the invariant of the name storage is re-established by every invocation -/
theorem ggood_step (g : GSt) (s : St) (k : Nat) (inv : Inv) (lay : Lay)
    (hg : Good s k) (gg : GGood g s k) :
    GGood (ginvoke g s k inv lay) (invoke s k inv).1 (k + 1) := by
  have hq := (prep_facts s k inv hg).1
  have hs := invoke_started s k inv hg
  cases hk : inv.kind with
  | runCode =>
    rw [ginvoke_runCode g s k inv lay hk hq]
    apply ggood_of g _ s _ k gg hs
    · split <;> rfl
    · split
      · exact Or.inr rfl
      · exact Or.inl rfl
  | call =>
    rw [ginvoke_call g s k inv lay hk hq]
    split
    · apply ggood_of g _ s _ k gg hs
      · unfold gsetup; dsimp only; split <;> rfl
      · unfold gsetup; dsimp only
        split
        · exact Or.inr rfl
        · exact Or.inl rfl
    · exact ggood_of g g s _ k gg hs rfl (Or.inl rfl)
  | run =>
    rw [ginvoke_run g s k inv lay hk hq]
    obtain ⟨w1, w2, w3, w4⟩ := runWrap_facts g s k gg
    obtain ⟨t, h1, h2⟩ := gg.tbl
    refine ⟨fun h => by omega, ⟨t ++ snippetNames k, by simp [h1], fun n hn => ?_⟩, fun w hw => ?_⟩
    · rw [List.mem_append] at hn
      rcases hn with hn | hn
      · obtain ⟨j, hj, hnj⟩ := h2 n hn
        exact ⟨j, by omega, hnj⟩
      · exact ⟨k, by omega, hn⟩
    · have hw' : w = (if cut s k inv then runWrap g k else execDefs (runWrap g k) (snippetNames k)) := by
        have : some (if cut s k inv then runWrap g k else execDefs (runWrap g k) (snippetNames k)) = some w := hw
        exact (Option.some.inj this).symm
      show w.owner = .main ∧ (∃ t, g.mainTbl ++ snippetNames k = names w.slots ++ t) ∧ _
      subst hw'
      cases cut s k inv
      · simp only [Bool.false_eq_true, ↓reduceIte, execDefs, names_defs, scan_defs]
        refine ⟨w1, ⟨[], by rw [w2]; simp⟩, fun n hn => ?_⟩
        have : n ∉ snippetNames k := fun h => snippet_not_host k n h hn
        simp [this, w3 n hn]
      · simp only [↓reduceIte]
        exact ⟨w1, ⟨[], by rw [w2]; simp⟩, w3⟩

theorem bodyState_hasCode (s : St) (k : Nat) (inv : Inv) : (bodyState s k inv).hasCode = true := by
  unfold bodyState enter
  simp only
  split <;> split <;> simp [start, reset]

/-- after an invocation the VM has code whose definitions were executed, unless a Run/RunCode was
    stopped at once by its own dead context -/
theorem invoke_hasCode (s : St) (k : Nat) (inv : Inv) (g : Good s k) :
    (invoke s k inv).1.hasCode = (!cut s k inv || inv.kind == .call) := by
  have hb := bodyState_hasCode s k inv
  rw [invoke_eq s k inv g]
  cases hc : cut s k inv with
  | true => simp [cutState]
  | false =>
    simp only [Bool.false_eq_true, ↓reduceIte, Bool.not_false, Bool.true_or]
    show (core (bodyState s k inv) (ctxOf k inv) (eff s k inv)).1.hasCode = true
    unfold core
    split
    · exact hb
    · split
      · exact hb
      split
      · unfold modEnd
        dsimp only
        split
        · rw [(cancel_sameCore _ _).2.2.2.2.1]; exact hb
        · exact hb
      · show (leaf (bodyState s k inv) (ctxOf k inv) (eff s k inv)).hasCode = _
        unfold leaf
        dsimp only
        split
        · rw [(cancel_sameCore _ _).2.2.2.2.1, (cancelAll_sameCore _ _).2.2.2.2.1]; exact hb
        · rw [(cancelAll_sameCore _ _).2.2.2.2.1]; exact hb


theorem preState_hasCode (s : St) (k : Nat) (inv : Inv) : (preState s k inv).hasCode = s.hasCode := by
  unfold preState events
  exact (cancelAll_sameCore _ _).2.2.2.2.1

theorem act0_mem_defNames (lay : Lay) : GName.act 0 ∈ defNames lay := by
  unfold defNames
  cases lay.swap <;> simp

/-- the link between the run-state and the name storage: when the VM has code (`hasCode`: a
    `Call` needs no definitions loaded), the name under which the host fetches the function it
    calls is bound, in the ACTIVE code, to that code's own function of that name -/
def Linked (g : GSt) (s : St) : Prop :=
  s.hasCode = true →
    ∃ w, activeWrap g = some w ∧ scan w.slots (callTarget g) = .val (.fn (callTarget g) w.owner)

theorem linked_fresh (acc : Nat) : Linked {} (fresh acc) := fun h => by simp [fresh] at h

theorem linked_setup (g : GSt) (p : St) (lay : Lay) (s' : St) : Linked (gsetup g p lay) s' := by
  intro _
  refine ⟨execDefs (loadRoot .setup (codeTbl lay)) (defNames lay), rfl, ?_⟩
  have e := scan_fresh_code .setup lay true (.act 0)
  simp only [↓reduceIte] at e
  show scan _ (GName.act 0) = _
  rw [e]
  have h1 := act0_mem_defNames lay
  have h2 : GName.act 0 ∈ codeTbl lay := by unfold codeTbl; exact List.mem_append_right _ h1
  simp [codeGet, h1, h2, defVal, execDefs, loadRoot, callTarget, gsetup]

theorem linked_step (g : GSt) (s : St) (k : Nat) (inv : Inv) (lay : Lay)
    (hg : Good s k) (gg : GGood g s k) (hl : Linked g s) :
    Linked (ginvoke g s k inv lay) (invoke s k inv).1 := by
  have hq := (prep_facts s k inv hg).1
  intro hc
  rw [invoke_hasCode s k inv hg] at hc
  cases hk : inv.kind with
  | call =>
    rw [ginvoke_call g s k inv lay hk hq]
    split
    · exact linked_setup g _ lay (invoke s k inv).1 (by rw [invoke_hasCode s k inv hg]; exact hc)
    · rename_i h
      have : s.hasCode = true := by
        rw [← preState_hasCode s k inv]; simpa using h
      exact hl this
  | runCode =>
    have hcut : cut s k inv = false := by simpa [hk] using hc
    have hload : loadCode (if 0 < (prep s k inv).startCount then greset g else g)
        (.code (codeOf k inv)) lay = loadRoot (.code (codeOf k inv)) (codeTbl lay) := by
      by_cases h0 : 0 < (prep s k inv).startCount
      · simp [h0, greset, loadCode]
      · have := (gg.cold (prep_cold s k inv hg h0)).1
        simp [h0, loadCode, this]
    rw [ginvoke_runCode g s k inv lay hk hq, hload, hcut]
    refine ⟨execDefs (loadRoot (.code (codeOf k inv)) (codeTbl lay)) (defNames lay), rfl, ?_⟩
    have e := scan_fresh_code (.code (codeOf k inv)) lay true (.act 0)
    simp only [↓reduceIte] at e
    show scan _ (GName.act 0) = _
    rw [e]
    have h1 := act0_mem_defNames lay
    have h2 : GName.act 0 ∈ codeTbl lay := by unfold codeTbl; exact List.mem_append_right _ h1
    simp [codeGet, h1, h2, defVal, execDefs, loadRoot, callTarget]
  | run =>
    have hcut : cut s k inv = false := by simpa [hk] using hc
    obtain ⟨w1, w2, w3, w4⟩ := runWrap_facts g s k gg
    rw [ginvoke_run g s k inv lay hk hq, hcut]
    refine ⟨execDefs (runWrap g k) (snippetNames k), rfl, ?_⟩
    show scan _ (GName.act (k + 1)) = _
    have hs : GName.act (k + 1) ∈ snippetNames k := by simp [snippetNames]
    have hin : GName.act (k + 1) ∈ names (runWrap g k).slots := by rw [w2]; simp [hs]
    simp [execDefs, scan_defs, hs, hin, defVal, w1, callTarget]

end Risor.C07
