import RisorModel.C07.Model
/-!
C07 — helper lemmas: what `cancel`/`cancelAll` can and cannot change, and when `halt`
becomes set.
-/
namespace Risor.C07

/-- the part of the state a cancellation never touches -/
def sameCore (a b : St) : Prop :=
  a.running = b.running ∧ a.startCount = b.startCount ∧ a.sp = b.sp ∧ a.fp = b.fp ∧
  a.hasCode = b.hasCode ∧ a.mods = b.mods ∧ a.acc = b.acc

theorem sameCore_refl (a : St) : sameCore a a := ⟨rfl, rfl, rfl, rfl, rfl, rfl, rfl⟩

theorem sameCore_trans {a b c : St} (h1 : sameCore a b) (h2 : sameCore b c) : sameCore a c := by
  obtain ⟨a1, a2, a3, a4, a5, a6, a7⟩ := h1
  obtain ⟨b1, b2, b3, b4, b5, b6, b7⟩ := h2
  exact ⟨a1.trans b1, a2.trans b2, a3.trans b3, a4.trans b4, a5.trans b5, a6.trans b6, a7.trans b7⟩

theorem cancel_sameCore (s : St) (i : Nat) : sameCore (cancel s i) s := by
  unfold cancel
  split
  · exact sameCore_refl s
  · simp only
    split <;> exact ⟨rfl, rfl, rfl, rfl, rfl, rfl, rfl⟩

/-- a cancellation never touches the module caches -/
theorem cancel_sameCore' (s : St) (i : Nat) :
    (cancel s i).fmod = s.fmod ∧ (cancel s i).mods = s.mods := by
  unfold cancel
  split
  · exact ⟨rfl, rfl⟩
  · simp only
    split <;> exact ⟨rfl, rfl⟩

theorem cancelAll_sameCore (s : St) (is : List Nat) : sameCore (cancelAll s is) s := by
  induction is generalizing s with
  | nil => exact sameCore_refl s
  | cons i t ih =>
    show sameCore (cancelAll (cancel s i) t) s
    exact sameCore_trans (ih (cancel s i)) (cancel_sameCore s i)

/-- `fires` in terms of membership -/
theorem fires_iff (s : St) (i : Nat) : fires s i = true ↔ i ∈ s.armed ∧ i ∉ s.cancelled := by
  unfold fires; simp

/-- `cancel` in the three possible situations -/
theorem cancel_of_cancelled (s : St) (i : Nat) (h : i ∈ s.cancelled) : cancel s i = s := by
  unfold cancel; simp [h]

theorem cancel_fires (s : St) (i : Nat) (h : fires s i = true) :
    cancel s i = { s with cancelled := i :: s.cancelled, halt := true, armed := s.armed.erase i } := by
  rw [fires_iff] at h
  unfold cancel
  simp [h.1, h.2]

theorem cancel_unarmed (s : St) (i : Nat) (hc : i ∉ s.cancelled) (ha : i ∉ s.armed) :
    cancel s i = { s with cancelled := i :: s.cancelled } := by
  unfold cancel
  simp [hc, ha]

/-- every cancelled context after `cancel` was cancelled before or is the one named -/
theorem cancel_cancelled (s : St) (i x : Nat) (hx : x ∈ (cancel s i).cancelled) :
    x ∈ s.cancelled ∨ x = i := by
  unfold cancel at hx
  split at hx
  · exact Or.inl hx
  · simp only at hx
    split at hx <;> simp only [List.mem_cons] at hx <;> rcases hx with h | h <;> simp [h]

theorem cancelAll_cancelled (s : St) (is : List Nat) (x : Nat)
    (hx : x ∈ (cancelAll s is).cancelled) : x ∈ s.cancelled ∨ x ∈ is := by
  induction is generalizing s with
  | nil => exact Or.inl hx
  | cons i t ih =>
    have := ih (cancel s i) hx
    rcases this with h | h
    · rcases cancel_cancelled s i x h with h | h
      · exact Or.inl h
      · exact Or.inr (by simp [h])
    · exact Or.inr (by simp [h])

/-- a cancellation never clears `halt` -/
theorem cancel_halt_mono (s : St) (i : Nat) (h : s.halt = true) : (cancel s i).halt = true := by
  unfold cancel
  split
  · exact h
  · simp only
    split
    · rfl
    · exact h

/-- cancelling `i` does not change whether cancelling another context `j` would fire -/
theorem fires_cancel_ne (s : St) (i j : Nat) (hne : j ≠ i) :
    fires (cancel s i) j = fires s j := by
  unfold cancel
  split
  · rfl
  · simp only
    split
    · unfold fires
      simp only [List.contains_eq_mem, List.mem_cons, hne, false_or]
      have : (j ∈ s.armed.erase i) ↔ j ∈ s.armed := by
        constructor
        · exact List.mem_of_mem_erase
        · intro h; exact (List.mem_erase_of_ne hne).2 h
      simp [this]
    · unfold fires
      simp [List.contains_eq_mem, hne]

/-- after `cancel s i`, cancelling `i` again never fires -/
theorem fires_cancel_self (s : St) (i : Nat) : fires (cancel s i) i = false := by
  unfold cancel
  split
  · rename_i h
    have h' : i ∈ s.cancelled := by simpa using h
    unfold fires; simp [h']
  · simp only
    split <;> (unfold fires; simp)

/-- `halt` after a list of cancellations: it was set before, or one of them fired a
    watcher that was armed and whose context was not yet cancelled -/
theorem cancelAll_halt (s : St) (is : List Nat) :
    (cancelAll s is).halt = (s.halt || is.any (fires s)) := by
  induction is generalizing s with
  | nil => simp [cancelAll]
  | cons i t ih =>
    show (cancelAll (cancel s i) t).halt = _
    rw [ih (cancel s i), List.any_cons]
    cases hf : fires s i with
    | true =>
      have : (cancel s i).halt = true := by rw [cancel_fires s i hf]
      simp [this]
    | false =>
      -- the head does not fire: `halt` is unchanged and so is `fires` for every other context
      have hh : (cancel s i).halt = s.halt := by
        by_cases hc : i ∈ s.cancelled
        · rw [cancel_of_cancelled s i hc]
        · have ha : i ∉ s.armed := by
            intro ha
            have := (fires_iff s i).2 ⟨ha, hc⟩
            rw [hf] at this; cases this
          rw [cancel_unarmed s i hc ha]
      have hany : t.any (fires (cancel s i)) = t.any (fires s) := by
        apply List.any_congr rfl
        intro j
        by_cases hji : j = i
        · subst hji; rw [fires_cancel_self, hf]
        · exact fires_cancel_ne s i j hji
      rw [hh, hany]; simp

/-- a watcher that is armed stays armed while OTHER contexts are cancelled -/
theorem cancel_armed_keep (s : St) (i k : Nat) (hne : k ≠ i) (hk : k ∈ s.armed) :
    k ∈ (cancel s i).armed := by
  unfold cancel
  split
  · exact hk
  · simp only
    split
    · exact (List.mem_erase_of_ne hne).2 hk
    · exact hk

theorem cancelAll_armed_keep (s : St) (is : List Nat) (k : Nat) (hk : k ∈ s.armed)
    (hn : k ∉ is) : k ∈ (cancelAll s is).armed := by
  induction is generalizing s with
  | nil => exact hk
  | cons i t ih =>
    simp only [List.mem_cons, not_or] at hn
    exact ih (cancel s i) (cancel_armed_keep s i k hn.1 hk) hn.2

theorem mem_earlier (k : Nat) (is : List Nat) (x : Nat) (h : x ∈ earlier k is) : x < k := by
  unfold earlier at h
  simp only [List.mem_filter, decide_eq_true_eq] at h
  exact h.2

/-- the invariant that holds between invocations, for histories of any length: the VM is
    not running, the frame pointer is back at the base frame, and only contexts of earlier
    invocations have been cancelled.  `halt`, `sp`, the armed watchers, the module cache
    are deliberately NOT constrained: they are whatever the earlier invocations left. -/
structure Good (s : St) (k : Nat) : Prop where
  quiet : s.running = false
  fp0 : s.fp = 0
  early : ∀ i ∈ s.cancelled, i < k

theorem good_fresh (acc k : Nat) : Good (fresh acc) k :=
  ⟨rfl, rfl, by intro i hi; simp [fresh] at hi⟩

theorem setup_facts (s : St) :
    (setup s).running = s.running ∧ (setup s).acc = s.acc ∧ (setup s).cancelled = s.cancelled ∧
    (setup s).armed = s.armed ∧ (s.fp = 0 → (setup s).fp = 0) := by
  unfold setup
  split <;> simp

theorem prep_facts (s : St) (k : Nat) (inv : Inv) (g : Good s k) :
    (prep s k inv).running = false ∧ (prep s k inv).acc = s.acc ∧ (prep s k inv).fp = 0 ∧
    (∀ i ∈ (prep s k inv).cancelled, i < k) := by
  have hc := cancelAll_sameCore s (earlier k inv.pre)
  obtain ⟨h1, _, _, h4, _, _, h7⟩ := hc
  have he : ∀ i ∈ (cancelAll s (earlier k inv.pre)).cancelled, i < k := by
    intro i hi
    rcases cancelAll_cancelled s _ i hi with h | h
    · exact g.early i h
    · exact mem_earlier k _ i h
  unfold prep
  simp only
  split
  · obtain ⟨a, b, c, _, e⟩ := setup_facts (cancelAll s (earlier k inv.pre))
    refine ⟨by rw [a, h1, g.quiet], by rw [b, h7], e (by rw [h4, g.fp0]), ?_⟩
    rw [c]; exact he
  · exact ⟨by rw [h1, g.quiet], h7, by rw [h4, g.fp0], he⟩

theorem enter_facts (s : St) (k : Nat) (inv : Inv) :
    (enter s k inv).halt = false ∧ (enter s k inv).running = true ∧
    (enter s k inv).acc = s.acc ∧ (enter s k inv).cancelled = s.cancelled ∧
    (enter s k inv).armed = (if inv.bg then s.armed else k :: s.armed) ∧
    (s.fp = 0 → (enter s k inv).fp = 0) := by
  unfold enter
  simp only
  split <;> simp [start, reset]

/-- facts about the state in which the body starts, under the invariant -/
theorem bodyState_facts (s : St) (k : Nat) (inv : Inv) (g : Good s k) :
    (bodyState s k inv).halt = false ∧ (bodyState s k inv).acc = s.acc ∧
    (bodyState s k inv).fp = 0 ∧ (∀ i ∈ (bodyState s k inv).cancelled, i < k) ∧
    (inv.bg = false → k ∈ (bodyState s k inv).armed) := by
  obtain ⟨_, p2, p3, p4⟩ := prep_facts s k inv g
  obtain ⟨e1, _, e3, e4, e5, e6⟩ := enter_facts (prep s k inv) k inv
  unfold bodyState
  refine ⟨e1, by rw [e3, p2], e6 p3, by rw [e4]; exact p4, ?_⟩
  intro hb
  rw [e5, hb]; simp

theorem fires_leafStart (b : St) (d bump : Nat) :
    fires { b with fp := b.fp + d + 1, acc := b.acc + bump } = fires b := by
  funext i; rfl

/-- the state at the leaf: is `halt` set, and is the invocation's own context cancelled -/
theorem leaf_facts (b : St) (k : Nat) (inv : Inv) (hh : b.halt = false)
    (he : ∀ i ∈ b.cancelled, i < k) (ha : inv.bg = false → k ∈ b.armed) :
    (leaf b k inv).acc = b.acc + inv.bump ∧
    (leaf b k inv).fp = b.fp + inv.depth + 1 ∧
    (leaf b k inv).running = b.running ∧
    (leaf b k inv).halt = (ownCancel inv || (earlier k inv.during).any (fires b)) ∧
    ((leaf b k inv).cancelled.contains k = ownCancel inv) ∧
    (∀ i ∈ (leaf b k inv).cancelled, i < k + 1) := by
  -- the state after the during-cancellations
  let s1 : St := { b with fp := b.fp + inv.depth + 1, acc := b.acc + inv.bump }
  let s2 := cancelAll s1 (earlier k inv.during)
  have hcore : sameCore s2 s1 := cancelAll_sameCore s1 _
  have hhalt : s2.halt = (earlier k inv.during).any (fires b) := by
    show (cancelAll s1 _).halt = _
    rw [cancelAll_halt, fires_leafStart]
    show (b.halt || _) = _
    rw [hh]; simp
  have hearly : ∀ i ∈ s2.cancelled, i < k := by
    intro i hi
    rcases cancelAll_cancelled s1 _ i hi with h | h
    · exact he i h
    · exact mem_earlier k _ i h
  have hk2 : k ∉ s2.cancelled := fun h => Nat.lt_irrefl k (hearly k h)
  by_cases hown : inv.beh = .selfCancel ∧ inv.bg = false
  · -- the invocation cancels its own context: its own watcher fires
    have hoc : ownCancel inv = true := by unfold ownCancel; simp [hown.1, hown.2]
    have hkarmed : k ∈ s2.armed := by
      apply cancelAll_armed_keep s1 _ k (ha hown.2)
      intro h; exact Nat.lt_irrefl k (mem_earlier k _ k h)
    have hf : fires s2 k = true := (fires_iff s2 k).2 ⟨hkarmed, hk2⟩
    have hleaf : leaf b k inv = cancel s2 k := by
      unfold leaf; simp only [hown, and_self, ↓reduceIte]; rfl
    rw [hleaf, cancel_fires s2 k hf, hoc]
    refine ⟨hcore.2.2.2.2.2.2, hcore.2.2.2.1, hcore.1, by simp, by simp, ?_⟩
    intro i hi
    simp only [List.mem_cons] at hi
    rcases hi with h | h
    · omega
    · exact Nat.lt_succ_of_lt (hearly i h)
  · have hoc : ownCancel inv = false := by
      unfold ownCancel
      cases hb : inv.beh <;> cases hg : inv.bg <;> simp_all
    have hleaf : leaf b k inv = s2 := by
      unfold leaf; simp only [hown, ↓reduceIte]; rfl
    rw [hleaf, hoc]
    refine ⟨hcore.2.2.2.2.2.2, hcore.2.2.2.1, hcore.1, by rw [hhalt]; simp, ?_, ?_⟩
    · simpa using hk2
    · intro i hi; exact Nat.lt_succ_of_lt (hearly i hi)

theorem invoke_eq (s : St) (k : Nat) (inv : Inv) (g : Good s k) :
    invoke s k inv = ({ (core (bodyState s k inv) k inv).1 with running := false },
                      (core (bodyState s k inv) k inv).2) := by
  have hp := (prep_facts s k inv g).1
  unfold invoke bodyState
  simp [hp]

/-- the Spec never yields the two outcomes that only a harmed invocation produces -/
theorem spec_ne (inv : Inv) (a : Nat) :
    specOutcome inv a ≠ .errImport ∧ specOutcome inv a ≠ .okHook := by
  unfold specOutcome
  split
  · exact ⟨by simp, by simp⟩
  · unfold behOutcome
    cases inv.beh <;> exact ⟨by simp, by simp⟩

/-- what ends a run inside the module's top-level code yields the outcome the Spec demands -/
theorem modEnd_outcome (s : St) (k : Nat) (inv : Inv) (h : modEnds s inv = true) :
    (modEnd s k inv).2 = specOutcome inv s.acc := by
  unfold modEnd specOutcome
  simp only
  cases hoc : ownCancel inv with
  | true => simp
  | false =>
    simp only [Bool.false_eq_true, ↓reduceIte]
    unfold modEnds at h
    rw [hoc] at h
    unfold behOutcome
    cases hb : inv.beh <;> simp_all

/-- ... and leaves the frame pointer, the running flag alone and cancels at most the
    invocation's own context -/
theorem modEnd_facts (s : St) (k : Nat) (inv : Inv) :
    (modEnd s k inv).1.fp = s.fp ∧
    (∀ i ∈ (modEnd s k inv).1.cancelled, i ∈ s.cancelled ∨ i = k) := by
  unfold modEnd
  simp only
  cases ownCancel inv with
  | true =>
    simp only [↓reduceIte]
    exact ⟨(cancel_sameCore s k).2.2.2.1, fun i hi => cancel_cancelled s k i hi⟩
  | false =>
    simp only [Bool.false_eq_true, ↓reduceIte]
    exact ⟨trivial, fun i hi => Or.inl hi⟩

/-- **One invocation, any state an arbitrary history can leave behind.**  Its outcome is
    determined by three things only: whether the import of a global module fails, whether a
    stale watcher fires, and otherwise the Spec (own code, arguments, current globals) - in
    particular it does not depend on whether the file module is cached, on where (module
    top-level code or leaf) the run ends, or on which code object is re-supplied. -/
theorem step_outcome (s : St) (k : Nat) (inv : Inv) (g : Good s k) :
    (invoke s k inv).2 =
      if importFails s k inv then .errImport
      else if staleFires s k inv && !ownCancel inv then .okHook
      else specOutcome inv s.acc := by
  rw [invoke_eq s k inv g]
  obtain ⟨b1, b2, _, b4, b5⟩ := bodyState_facts s k inv g
  by_cases himp : inv.imp = true ∧ (bodyState s k inv).mods = false
  · have hf : importFails s k inv = true := by unfold importFails; simp [himp.1, himp.2]
    rw [hf]
    unfold core
    simp [himp.1, himp.2]
  · have hf : importFails s k inv = false := by
      unfold importFails
      cases h1 : inv.imp <;> cases h2 : (bodyState s k inv).mods <;> simp_all
    rw [hf]
    cases hme : modEnds (bodyState s k inv) inv with
    | true =>
      have hcore : (core (bodyState s k inv) k inv).2 = (modEnd (bodyState s k inv) k inv).2 := by
        unfold core; simp only [himp, hme, ↓reduceIte]
      have hs : staleFires s k inv = false := by unfold staleFires; rw [hme]; simp
      simp only [Bool.false_eq_true, ↓reduceIte]
      rw [hcore, hs, modEnd_outcome _ k inv hme, b2]
      simp
    | false =>
      obtain ⟨l1, _, _, l4, l5, _⟩ := leaf_facts (bodyState s k inv) k inv b1 b4 b5
      have hcore : (core (bodyState s k inv) k inv).2
          = leafOutcome (leaf (bodyState s k inv) k inv) k inv := by
        unfold core; simp only [himp, hme, Bool.false_eq_true, ↓reduceIte]
      simp only [Bool.false_eq_true, ↓reduceIte]
      rw [hcore]
      unfold leafOutcome
      rw [l4, l5, l1, b2]
      unfold staleFires
      rw [hf, hme]
      unfold specOutcome
      cases ownCancel inv <;> cases (earlier k inv.during).any (fires (bodyState s k inv)) <;> simp

/-- the invariant is re-established by every invocation, however (and wherever) it ends -/
theorem step_good (s : St) (k : Nat) (inv : Inv) (g : Good s k) :
    Good (invoke s k inv).1 (k + 1) := by
  rw [invoke_eq s k inv g]
  obtain ⟨b1, _, b3, b4, b5⟩ := bodyState_facts s k inv g
  by_cases himp : inv.imp = true ∧ (bodyState s k inv).mods = false
  · unfold core
    simp only [himp, and_self, ↓reduceIte]
    exact ⟨rfl, b3, fun i hi => Nat.lt_succ_of_lt (b4 i hi)⟩
  · cases hme : modEnds (bodyState s k inv) inv with
    | true =>
      obtain ⟨m1, m2⟩ := modEnd_facts (bodyState s k inv) k inv
      have hcore : core (bodyState s k inv) k inv = modEnd (bodyState s k inv) k inv := by
        unfold core; simp only [himp, hme, ↓reduceIte]
      rw [hcore]
      refine ⟨rfl, by show (modEnd (bodyState s k inv) k inv).1.fp = 0; rw [m1, b3], ?_⟩
      intro i hi
      rcases m2 i hi with h | h
      · exact Nat.lt_succ_of_lt (b4 i h)
      · omega
    | false =>
      obtain ⟨_, l2, _, _, _, l6⟩ := leaf_facts (bodyState s k inv) k inv b1 b4 b5
      unfold core
      simp only [himp, hme, Bool.false_eq_true, ↓reduceIte]
      refine ⟨rfl, ?_, l6⟩
      show (leaf (bodyState s k inv) k inv).fp - (inv.depth + 1) = 0
      rw [l2, b3]; omega

/-- while the host callback runs the VM is marked running: a re-entrant Run/RunCode/Call
    from the callback is refused -/
theorem leaf_running (s : St) (k : Nat) (inv : Inv) (g : Good s k) :
    (leaf (bodyState s k inv) k inv).running = true := by
  obtain ⟨b1, _, _, b4, b5⟩ := bodyState_facts s k inv g
  obtain ⟨_, _, l3, _⟩ := leaf_facts (bodyState s k inv) k inv b1 b4 b5
  rw [l3]
  exact (enter_facts (prep s k inv) k inv).2.1

end Risor.C07
