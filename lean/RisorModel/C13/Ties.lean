import RisorModel.C13.Model
import RisorModel.Generated.C13
/-!
C13 ties: the definition regenerated from `os/os.go` by the extractor on this run equals
the hand-written model the theorems in `Props.lean` are stated over.
-/
namespace Risor.C13

theorem resolvePath_tie (base p : Path) :
    Risor.Generated.C13.resolvePath base p = resolvePath base p := rfl

end Risor.C13
