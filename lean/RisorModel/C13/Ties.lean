import RisorModel.C13.Model
import RisorModel.Generated.C13
/-!
C13 ties: the definition regenerated from `os/os.go` by the extractor on this run equals
the hand-written model the theorems in `Props.lean` are stated over.
-/
namespace Risor.C13

theorem resolvePath_tie (base p : Path) :
    Risor.Generated.C13.resolvePath base p = resolvePath base p := rfl

/-- the two-path methods of the virtual OS look up EACH path argument in the mount table
    (parameter 0, then parameter 1) and compare the two mounts found — what `twoPath` models and
    `twoPath_routed_independently` / `cross_mount_refused` are about.  `MkdirTemp(dir, pattern)`
    looks up the configured temp directory (`osObj.tmp`, not a parameter: 99), none of its
    arguments.  A further method with two path arguments shows up here. -/
theorem two_path_lookups_tie :
    Risor.Generated.C13.twoStringMethodLookups =
      [("MkdirTemp", [99], false), ("Rename", [0, 1], true), ("Symlink", [0, 1], true)] := by decide

/-- the method `(*Filesystem).resolvePath` of os/localfs/localfs.go — through which every
    operation of the local filesystem resolves its path arguments — is ONE statement: the stored
    base and the RAW argument go to `os.ResolvePath`.  Nothing inspects the argument before it
    is cleaned and checked (no "this is one of our own host paths" shortcut).  This is what the
    model's `localResolve base p := resolvePath base p` says, and what `lsession_confined`,
    `own_host_prefix_confined` and `handed_back_nests` are stated over. -/
theorem localResolve_tie :
    Risor.Generated.C13.localResolveSig = "func (fs *Filesystem) resolvePath(path, op string) (string, error)"
    ∧ Risor.Generated.C13.localResolveStmts = ["return ros.ResolvePath(fs.base, path, op)"]
    ∧ ∀ base p, localResolve base p = Risor.Generated.C13.resolvePath base p := by
  refine ⟨by decide, by decide, fun _ _ => rfl⟩

/-- every method of `*Filesystem` passes each of its path parameters to `fs.resolvePath` and to
    nothing else unresolved; the only string parameter that reaches the Go `os` package as it
    is, is `MkdirTemp`'s name pattern (`os.MkdirTemp` refuses a pattern with a separator).  A
    further method, or one that uses a path parameter unresolved, shows up here. -/
theorem localfs_path_flow_tie :
    Risor.Generated.C13.localfsPathFlow =
      [("Create", [0], []), ("Mkdir", [0], []), ("MkdirAll", [0], []), ("MkdirTemp", [0], [1]),
       ("Open", [0], []), ("OpenFile", [0], []), ("ReadDir", [0], []), ("ReadFile", [0], []),
       ("Remove", [0], []), ("RemoveAll", [0], []), ("Rename", [0, 1], []), ("Stat", [0], []),
       ("Symlink", [0, 1], []), ("WalkDir", [0], []), ("WriteFile", [0], [])] := by decide

end Risor.C13
