import RisorModel.C13.Model
import RisorModel.Generated.C13
/-!
C13 ties: the definition regenerated from `os/os.go` by the extractor on this run equals
the hand-written model the theorems in `Props.lean` are stated over.
-/
namespace Risor.C13

theorem resolvePath_tie (base p : Path) :
    Risor.Generated.C13.resolvePath base p = resolvePath base p := rfl

/-- the two-path methods of the virtual OS look up EACH path argument in the mount table
    (parameter 0, then parameter 1) and compare the two mounts found — what `twoPath` models and
    `twoPath_routed_independently` / `cross_mount_refused` are about.  `MkdirTemp(dir, pattern)`
    looks up the configured temp directory (`osObj.tmp`, not a parameter: 99), none of its
    arguments.  A further method with two path arguments shows up here. -/
theorem two_path_lookups_tie :
    Risor.Generated.C13.twoStringMethodLookups =
      [("MkdirTemp", [99], false), ("Rename", [0, 1], true), ("Symlink", [0, 1], true)] := by decide

end Risor.C13
