import RisorModel.Util
import RisorModel.C13.Model
/-! Line-protocol front end of the C13 model (requests after the leading `C13` field). -/
namespace Risor.C13
open Risor.Util

def showRes : Res → String
  | .ok p => "ok\t" ++ toHexField p
  | .invalid => "invalid"

def handle : List String → String
  | ["clean", p] =>
    match fromHex p with
    | some p => toHexField (cleanStr p)
    | none => "error\tbad-hex"
  | ["join", a, b] =>
    match fromHex a, fromHex b with
    | some a, some b => toHexField (join2 a b)
    | _, _ => "error\tbad-hex"
  | ["resolve", b, p] =>
    match fromHex b, fromHex p with
    | some b, some p => showRes (resolvePath b p)
    | _, _ => "error\tbad-hex"
  | ["newbase", b] =>
    match fromHex b with
    | some b => match newBase b with
      | some x => "ok\t" ++ toHexField x
      | none => "reject"
    | none => "error\tbad-hex"
  | ["mount", cwd, p, ms] =>
    match fromHex cwd, fromHex p, (ms.splitOn ",").mapM fromHex with
    | some cwd, some p, some ms =>
      let impl := match findMount ms cwd p with
        | some (m, rel) => "some " ++ toHexField m ++ " " ++ toHexField rel
        | none => "none"
      let spec := match specMount ms cwd p with
        | some m => "some " ++ toHexField m
        | none => "none"
      impl ++ "\t" ++ spec ++ "\t" ++ toString (stringPrefixOnly ms cwd p)
    | _, _, _ => "error\tbad-hex"
  | ["mount2", cwd, p, q, ms] =>
    match fromHex cwd, fromHex p, fromHex q, (ms.splitOn ",").mapM fromHex with
    | some cwd, some p, some q, some ms =>
      let showTwo : TwoRes → String := fun r => match r with
        | .noMount1 => "nomount1"
        | .noMount2 => "nomount2"
        | .cross => "cross"
        | .forward m r1 r2 => "some " ++ toHexField m ++ " " ++ toHexField r1 ++ " " ++ toHexField r2
      let showOpt : Option Path → String := fun o => match o with
        | some m => "some " ++ toHexField m
        | none => "none"
      let impl := twoPath ms cwd p q
      showTwo impl ++ "\t" ++ showOpt (specTwoPath ms cwd p q) ++ "\t" ++ showOpt (specMount ms cwd p)
        ++ "\t" ++ showOpt (specMount ms cwd q) ++ "\t" ++ toString (impl != twoPathShortcut ms cwd p q)
    | _, _, _, _ => "error\tbad-hex"
  | ["lstep", base, handed, kind, a1, a2, extra] =>
    -- one call on a local filesystem whose session has handed out `handed` so far
    let parseList : String → Option (List Path) := fun s =>
      if s = "none" then some [] else (s.splitOn ",").mapM fromHex
    let showList : List Path → String := fun l =>
      if l.isEmpty then "none" else ",".intercalate (l.map toHexField)
    let parseArg : String → Option LArg := fun s =>
      match s.toList with
      | 'L' :: r => (fromHex (String.ofList r)).map LArg.lit
      | 'H' :: r =>
        let (i, h) := r.span (fun c => c != ':')
        match (String.ofList i).toNat?, fromHex (String.ofList (h.drop 1)) with
        | some i, some h => some (LArg.handed i h)
        | _, _ => none
      | _ => none
    let op : Option LOp :=
      match kind, parseArg a1 with
      | "access", some a => some (.access a)
      | "open", some a => some (.openFile a)
      | "access2", some a => (parseArg a2).map (LOp.access2 a)
      | "mkdirtemp", some a => (fromHex extra).map (LOp.mkdirTemp a)
      | "mkdirtempp", some a =>
        match fromHex a2, fromHex extra with
        | some pat, some rnd => some (LOp.mkdirTempP a pat rnd)
        | _, _ => none
      | "walk", some a => (parseList extra).map (fun rels => LOp.walk a (rels.map comps))
      | _, _ => none
    match fromHex base, parseList handed, op with
    | some base, some hs, some op =>
      let st : LState := { handed := hs, touched := [] }
      let st' := lstep base st op
      (if st'.touched.isEmpty then "invalid" else "ok") ++ "\t" ++ showList st'.touched
        ++ "\t" ++ showList (st'.handed.drop hs.length)
    | _, _, _ => "error\tbad-request"
  | ["kstep", base, cwd, links, kind, a1, a2, ok] =>
    -- one Symlink / Rename / Remove call on a local filesystem whose session made `links` so far
    match fromHex base, fromHex cwd, parseLinks links, fromHex a1, fromHex a2 with
    | some base, some cwd, some ls, some a1, some a2 =>
      let okb := ok == "1"
      let op : Option KOp := match kind with
        | "symlink" => some (.symlink a1 a2 okb)
        | "rename" => some (.rename a1 a2 okb)
        | "remove" => some (.remove a1 okb)
        | _ => none
      match op with
      | some op =>
        let ls' := kstep base (comps cwd) 64 ls op
        showLinks ls' ++ "\t" ++ toString (linksClosed (baseComps base cwd) ls')
      | none => "error\tbad-request"
    | _, _, _, _, _ => "error\tbad-hex"
  | ["kread", base, cwd, links, p] =>
    -- where a read of `p` ends when the kernel follows the session's links
    match fromHex base, fromHex cwd, parseLinks links, fromHex p with
    | some base, some cwd, some ls, some p =>
      match localResolve base p with
      | .invalid => "invalid"
      | .ok r =>
        match hostWalk ls (comps cwd) 64 r with
        | none => "loop\t" ++ toHexField r
        | some h => "ok\t" ++ toHexField (47 :: joinSep h) ++ "\t"
            ++ (if isCompPrefix (baseComps base cwd) h then "inside" else "outside") ++ "\t" ++ toHexField r
    | _, _, _, _ => "error\tbad-hex"
  | _ => "error\tunknown-request"
where
  baseComps (base cwd : Path) : List Path :=
    if isAbs base then comps base else cleanComps true (comps cwd ++ split base)
  parseLinks (s : String) : Option Links :=
    if s = "none" then some [] else
      (s.splitOn ",").mapM (fun e => match e.splitOn "=" with
        | [l, c] => match fromHex l, fromHex c with
          | some l, some c => some (comps l, c)
          | _, _ => none
        | _ => none)
  showLinks (l : Links) : String :=
    if l.isEmpty then "none" else ",".intercalate (l.map (fun e => toHexField (47 :: joinSep e.1) ++ "=" ++ toHexField e.2))

end Risor.C13
