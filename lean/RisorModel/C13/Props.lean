import RisorModel.C13.Lemmas
/-!
C13 — property theorems.  Rooted filesystems and mounts cannot be escaped by any path
string.  Everything here is for ALL byte strings `p` (no bound on length or on the number
of segments).
-/
namespace Risor.C13

def Good (cs : List Path) : Prop := ∀ x ∈ cs, plain x = true ∧ 47 ∉ x

theorem foldl_split_render (rooted r : Bool) (st cs : List Path) (h : Good cs) :
    (split (render r cs)).foldl (push rooted) st = cs.reverse ++ st := by
  have hp : ∀ x ∈ cs, plain x = true := fun x hx => (h x hx).1
  have hs : ∀ x ∈ cs, 47 ∉ x := fun x hx => (h x hx).2
  cases r with
  | true =>
    cases cs with
    | nil => simp [render, joinSep, split, push]
    | cons c t =>
      simp only [render, ↓reduceIte, split]
      rw [split_joinSep _ (by simp) hs, List.foldl_cons, push_skip rooted st [] (Or.inl rfl),
        foldl_push_plain rooted st _ hp]
  | false =>
    cases cs with
    | nil => simp [render, split, push]
    | cons c t =>
      simp only [render, Bool.false_eq_true, ↓reduceIte, List.isEmpty_cons]
      rw [split_joinSep _ (by simp) hs, foldl_push_plain rooted st _ hp]

theorem render_ne_nil (r : Bool) (cs : List Path) (h : Good cs) : render r cs ≠ [] := by
  cases r with
  | true => simp [render]
  | false =>
    cases cs with
    | nil => simp [render]
    | cons c t =>
      have hc : c ≠ [] := ((plain_iff c).1 (h c (by simp)).1).1
      cases t with
      | nil => simpa [render, joinSep] using hc
      | cons d t => simp [render, joinSep, hc]

theorem isAbs_cons_ne (x : Nat) (xs : Path) (hx : x ≠ 47) : isAbs (x :: xs) = false := by
  unfold isAbs
  split
  · rename_i h; simp only [List.cons.injEq] at h; exact absurd h.1 hx
  · rfl

theorem isAbs_render_append (r : Bool) (cs : List Path) (s : Path) (h : Good cs) :
    isAbs (render r cs ++ s) = r := by
  cases r with
  | true => simp [render, isAbs]
  | false =>
    cases cs with
    | nil => simp [render, isAbs]
    | cons c t =>
      have hc : c ≠ [] := ((plain_iff c).1 (h c (by simp)).1).1
      have hs : 47 ∉ c := (h c (by simp)).2
      cases c with
      | nil => exact absurd rfl hc
      | cons x xs =>
        have hx : x ≠ 47 := fun e => hs (by simp [e])
        cases t with
        | nil => simpa [render, joinSep] using isAbs_cons_ne x _ hx
        | cons d t => simpa [render, joinSep] using isAbs_cons_ne x _ hx

/-- `Clean(B + "/" + C)` where `B`, `C` are renderings of good component lists is the
    rendering of the concatenation: nothing of `C` can cancel a component of `B`. -/
theorem clean_join_render (rb rp : Bool) (cb cp : List Path) (hb : Good cb) (hp : Good cp) :
    cleanStr (render rb cb ++ 47 :: render rp cp) = render rb (cb ++ cp) := by
  have hne : (render rb cb ++ 47 :: render rp cp).isEmpty = false := by
    cases h : render rb cb ++ 47 :: render rp cp with
    | nil => simp at h
    | cons _ _ => rfl
  unfold cleanStr
  rw [hne]
  simp only [Bool.false_eq_true, ↓reduceIte]
  rw [isAbs_render_append rb cb _ hb, split_append_sep, cleanComps, List.foldl_append,
    foldl_split_render rb rb [] cb hb, foldl_split_render rb rp _ cp hp]
  simp

/-- every accepted cleaned path is the rendering of plain, separator-free components -/
theorem cleanStr_repr (p : Path) (h : hasPrefix (cleanStr p) dotdot = false) :
    ∃ cp, cleanStr p = render (isAbs p) cp ∧ Good cp := by
  by_cases hp : p = []
  · subst hp; exact ⟨[], by simp [cleanStr, render, isAbs], by simp [Good]⟩
  · have hne : p.isEmpty = false := by cases p <;> simp_all
    refine ⟨cleanComps (isAbs p) (split p), by simp [cleanStr, hne], ?_⟩
    intro x hx
    refine ⟨?_, cleanComps_sepfree _ p x hx⟩
    cases hr : isAbs p with
    | true =>
      rw [hr] at hx
      simp only [cleanComps, List.mem_reverse] at hx
      exact foldl_rooted_plain (split p) [] (by simp) x hx
    | false =>
      rw [hr] at hx
      obtain ⟨a, b, hab, ha, hb⟩ := foldl_rel_inv (split p) [] ⟨[], [], rfl, by simp, by simp⟩
      have hcl : cleanComps false (split p) = b.reverse ++ a.reverse := by simp [cleanComps, hab]
      cases hbr : b.reverse with
      | nil =>
        have : b = [] := by simpa using hbr
        subst this
        rw [hcl] at hx
        simp only [List.reverse_nil, List.nil_append, List.mem_reverse] at hx
        exact ha x hx
      | cons y t =>
        exfalso
        have hy : y = dotdot := hb y (by
          have : y ∈ b.reverse := by rw [hbr]; simp
          simpa using this)
        have : cleanStr p = joinSep (dotdot :: (t ++ a.reverse)) := by
          simp [cleanStr, hne, hr, render, hcl, hbr, hy]
        rw [this, joinSep_cons_prefix] at h
        exact absurd h (by simp)

/-- **Confinement of `ResolvePath`** (hence of every `localfs` operation, each of which
    passes every path argument through it): for every requested path string `p`, if the
    base stored by `localfs.New` is `base` (neither empty nor `/`) and the call is accepted
    with result `r`, then `base` is the rendering of good components `cb` and `r` is the
    rendering of `cb ++ rest` for good components `rest`: `r` lies under `base` at a
    component boundary, with no `.`/`..`/empty component left. -/
theorem resolvePath_confined (b0 base p r : Path)
    (hbase : newBase b0 = some base) (h1 : base ≠ []) (h2 : base ≠ [47])
    (h : resolvePath base p = .ok r) :
    ∃ cb rest, Good cb ∧ Good rest ∧ base = render (isAbs b0) cb
      ∧ r = render (isAbs b0) (cb ++ rest) := by
  -- the stored base
  have hb0 : b0.isEmpty = false := by
    cases b0 with
    | nil => simp_all [newBase]
    | cons _ _ => rfl
  simp only [newBase, hb0, Bool.false_eq_true, ↓reduceIte] at hbase
  split at hbase
  · cases hbase
  · rename_i hpre
    simp only [Option.some.injEq] at hbase
    have hpre' : hasPrefix (cleanStr b0) dotdot = false := by simpa using hpre
    obtain ⟨cb, hrb, hcb⟩ := cleanStr_repr b0 hpre'
    -- the request
    unfold resolvePath at h
    simp only at h
    split at h
    · cases h
    · rename_i hc
      have hc' : hasPrefix (cleanStr p) dotdot = false := by simpa using hc
      obtain ⟨cp, hrp, hcp⟩ := cleanStr_repr p hc'
      have hbe : (base == [] || base == [47]) = false := by
        rw [beq_false_of_ne h1, beq_false_of_ne h2]; rfl
      rw [hbe] at h
      simp only [Bool.false_eq_true, ↓reduceIte, Res.ok.injEq] at h
      have hbne : base.isEmpty = false := by cases base <;> simp_all
      have hcne : (cleanStr p).isEmpty = false := by
        rw [hrp]; cases hh : render (isAbs p) cp with
        | nil => exact absurd hh (render_ne_nil _ cp hcp)
        | cons _ _ => rfl
      refine ⟨cb, cp, hcb, hcp, ?_, ?_⟩
      · rw [← hbase, hrb]
      · rw [← h, join2, hbne, hcne]
        simp only [Bool.and_self, Bool.false_eq_true, ↓reduceIte]
        rw [← hbase, hrb, hrp, clean_join_render _ _ cb cp hcb hcp]

/-- String-level reading of the same fact for an absolute base: the result is the base
    itself or the base followed by `/` and more bytes (a component boundary). -/
theorem resolvePath_confined_string (b0 base p r : Path)
    (hbase : newBase b0 = some base) (h1 : base ≠ []) (h2 : base ≠ [47])
    (habs : isAbs b0 = true) (h : resolvePath base p = .ok r) :
    r = base ∨ ∃ s, r = base ++ 47 :: s := by
  obtain ⟨cb, rest, hcb, hrest, hb, hr⟩ := resolvePath_confined b0 base p r hbase h1 h2 h
  rw [habs] at hb hr
  cases rest with
  | nil => left; rw [hr, hb]; simp
  | cons c t =>
    right
    cases cb with
    | nil => simp [render, joinSep] at hb; exact absurd hb h2
    | cons d u =>
      refine ⟨joinSep (c :: t), ?_⟩
      rw [hr, hb]
      simp only [render, ↓reduceIte]
      rw [joinSep_append (d :: u) (c :: t) (by simp) (by simp)]
      simp

/-- escaping requests are rejected, and only those -/
theorem resolvePath_rejects_iff (base p : Path) :
    resolvePath base p = .invalid ↔ hasPrefix (cleanStr p) dotdot = true := by
  unfold resolvePath
  simp only
  split
  · simp_all
  · split <;> simp_all

/-- with no base (or `/`) the cleaned path is returned as is -/
theorem resolvePath_nobase (p : Path) (h : hasPrefix (cleanStr p) dotdot = false) :
    resolvePath [] p = .ok (cleanStr p) ∧ resolvePath [47] p = .ok (cleanStr p) := by
  simp [resolvePath, h]

/-! ### Mounts -/

theorem hasPrefix_eq_of_length (p a b : Path) (ha : hasPrefix p a = true) (hb : hasPrefix p b = true)
    (hl : a.length = b.length) : a = b := by
  induction p generalizing a b with
  | nil =>
    cases a <;> cases b <;> simp_all [hasPrefix]
  | cons x xs ih =>
    cases a with
    | nil => cases b <;> simp_all
    | cons y ys =>
      cases b with
      | nil => simp at hl
      | cons z zs =>
        simp only [hasPrefix, Bool.and_eq_true, beq_iff_eq] at ha hb
        simp only [List.length_cons, Nat.add_right_cancel_iff] at hl
        rw [← ha.1, ← hb.1, ih ys zs ha.2 hb.2 hl]

theorem mountMatches_hasPrefix {path k : Path} (h : mountMatches path k = true) : hasPrefix path k = true := by
  simp only [mountMatches, Bool.and_eq_true] at h
  exact h.1

def relOf (path m : Path) : Path :=
  let rel := trimPrefix path m
  if rel.isEmpty then [47] else rel

/-- what `findMount`'s loop computes, independent of the visiting order -/
def IsBest (path : Path) (cands : List Path) (m : Path) : Prop :=
  m ∈ cands ∧ mountMatches path m = true ∧ ∀ k ∈ cands, mountMatches path k = true → k.length ≤ m.length

theorem findMountLoop_spec (path : Path) (ks : List Path) (best : Option Path)
    (hbest : ∀ m, best = some m → mountMatches path m = true ∧ m ≠ path) :
    (path ∈ ks → findMountLoop path ks best = some (path, [47])) ∧
    (path ∉ ks →
      (∀ m, IsBest path (best.toList ++ ks) m → findMountLoop path ks best = some (m, relOf path m)) ∧
      ((∀ k ∈ best.toList ++ ks, mountMatches path k = false) → findMountLoop path ks best = none)) := by
  induction ks generalizing best with
  | nil =>
    refine ⟨by simp, fun _ => ⟨?_, ?_⟩⟩
    · intro m hm
      cases best with
      | none => simp [IsBest] at hm
      | some b =>
        have : m = b := by simpa [IsBest] using hm.1
        subst this; simp [findMountLoop, relOf]
    · intro h
      cases best with
      | none => simp [findMountLoop]
      | some b =>
        have := h b (by simp)
        rw [(hbest b rfl).1] at this; cases this
  | cons k ks ih =>
    refine ⟨?_, ?_⟩
    · intro hmem
      by_cases hk : k = path
      · simp [findMountLoop, hk]
      · have hin : path ∈ ks := by
          simp only [List.mem_cons] at hmem
          rcases hmem with h | h
          · exact absurd h.symm hk
          · exact h
        unfold findMountLoop
        simp only [hk, ↓reduceIte]
        split
        · cases best with
          | none => exact (ih (some k) (by intro m hm; cases hm; exact ⟨by assumption, hk⟩)).1 hin
          | some b =>
            simp only
            split
            · exact (ih (some k) (by intro m hm; cases hm; exact ⟨by assumption, hk⟩)).1 hin
            · exact (ih (some b) hbest).1 hin
        · exact (ih best hbest).1 hin
    · intro hnot
      simp only [List.mem_cons, not_or] at hnot
      have hk : k ≠ path := fun e => hnot.1 e.symm
      refine ⟨?_, ?_⟩
      · intro m hm
        unfold findMountLoop
        simp only [hk, ↓reduceIte]
        by_cases hpk : mountMatches path k = true
        · simp only [hpk, ↓reduceIte]
          cases best with
          | none =>
            simp only
            apply ((ih (some k) (by intro m hm; cases hm; exact ⟨hpk, hk⟩)).2 hnot.2).1
            simpa [IsBest] using hm
          | some b =>
            simp only
            have hb := hbest b rfl
            split
            · rename_i hlen
              apply ((ih (some k) (by intro m hm; cases hm; exact ⟨hpk, hk⟩)).2 hnot.2).1
              obtain ⟨hm1, hm2, hm3⟩ := hm
              refine ⟨?_, hm2, ?_⟩
              · simp only [Option.toList_some, List.cons_append, List.nil_append, List.mem_cons] at hm1 ⊢
                rcases hm1 with rfl | rfl | h
                · have := hm3 k (by simp) hpk; omega
                · simp
                · simp [h]
              · intro x hx hxp
                exact hm3 x (by
                  simp only [Option.toList_some, List.cons_append, List.nil_append, List.mem_cons] at hx ⊢
                  rcases hx with rfl | h
                  · simp
                  · simp [h]) hxp
            · rename_i hlen
              apply ((ih (some b) hbest).2 hnot.2).1
              obtain ⟨hm1, hm2, hm3⟩ := hm
              refine ⟨?_, hm2, ?_⟩
              · simp only [Option.toList_some, List.cons_append, List.nil_append, List.mem_cons] at hm1 ⊢
                rcases hm1 with rfl | rfl | h
                · simp
                · -- m = k: then b is at most as long as k and k at most as long as b
                  have h1 := hm3 b (by simp) hb.1
                  have : m = b := hasPrefix_eq_of_length path m b (mountMatches_hasPrefix hm2) (mountMatches_hasPrefix hb.1) (by omega)
                  simp [this]
                · simp [h]
              · intro x hx hxp
                exact hm3 x (by
                  simp only [Option.toList_some, List.cons_append, List.nil_append, List.mem_cons] at hx ⊢
                  rcases hx with rfl | h
                  · simp
                  · simp [h]) hxp
        · have hpk' : mountMatches path k = false := by simpa using hpk
          simp only [hpk', Bool.false_eq_true, ↓reduceIte]
          apply ((ih best hbest).2 hnot.2).1
          obtain ⟨hm1, hm2, hm3⟩ := hm
          refine ⟨?_, hm2, ?_⟩
          · simp only [List.mem_append, List.mem_cons] at hm1 ⊢
            rcases hm1 with h | rfl | h
            · simp [h]
            · rw [hm2] at hpk'; cases hpk'
            · simp [h]
          · intro x hx hxp
            exact hm3 x (by
              simp only [List.mem_append, List.mem_cons] at hx ⊢
              rcases hx with h | h
              · simp [h]
              · simp [h]) hxp
      · intro hall
        unfold findMountLoop
        simp only [hk, ↓reduceIte]
        have hpk : mountMatches path k = false := hall k (by simp)
        simp only [hpk, Bool.false_eq_true, ↓reduceIte]
        apply ((ih best hbest).2 hnot.2).2
        intro x hx
        exact hall x (by
          simp only [List.mem_append, List.mem_cons] at hx ⊢
          rcases hx with h | h
          · simp [h]
          · simp [h])

/-- the best candidate is unique -/
theorem IsBest_unique (path : Path) (c1 c2 : List Path) (hperm : ∀ x, x ∈ c1 ↔ x ∈ c2)
    (m1 m2 : Path) (h1 : IsBest path c1 m1) (h2 : IsBest path c2 m2) : m1 = m2 := by
  obtain ⟨a1, a2, a3⟩ := h1
  obtain ⟨b1, b2, b3⟩ := h2
  have := a3 m2 ((hperm m2).2 b1) b2
  have := b3 m1 ((hperm m1).1 a1) a2
  exact hasPrefix_eq_of_length path m1 m2 (mountMatches_hasPrefix a2) (mountMatches_hasPrefix b2) (by omega)

theorem exists_best (path : Path) (cands : List Path) :
    (∃ m, IsBest path cands m) ∨ (∀ k ∈ cands, mountMatches path k = false) := by
  induction cands with
  | nil => right; simp
  | cons c cs ih =>
    by_cases hc : mountMatches path c = true
    · left
      rcases ih with ⟨m, hm1, hm2, hm3⟩ | hnone
      · by_cases hl : m.length < c.length
        · refine ⟨c, by simp, hc, ?_⟩
          intro k hk hkp
          simp only [List.mem_cons] at hk
          rcases hk with rfl | hk
          · omega
          · have := hm3 k hk hkp; omega
        · refine ⟨m, by simp [hm1], hm2, ?_⟩
          intro k hk hkp
          simp only [List.mem_cons] at hk
          rcases hk with rfl | hk
          · omega
          · exact hm3 k hk hkp
      · refine ⟨c, by simp, hc, ?_⟩
        intro k hk hkp
        simp only [List.mem_cons] at hk
        rcases hk with rfl | hk
        · omega
        · rw [hnone k hk] at hkp; cases hkp
    · have hc' : mountMatches path c = false := by simpa using hc
      rcases ih with ⟨m, hm1, hm2, hm3⟩ | hnone
      · left
        refine ⟨m, by simp [hm1], hm2, ?_⟩
        intro k hk hkp
        simp only [List.mem_cons] at hk
        rcases hk with rfl | hk
        · rw [hc'] at hkp; cases hkp
        · exact hm3 k hk hkp
      · right
        intro k hk
        simp only [List.mem_cons] at hk
        rcases hk with rfl | hk
        · exact hc'
        · exact hnone k hk

/-- **Mount selection does not depend on Go's map iteration order**: any two visiting
    orders of the same set of mount points give the same mount and relative path, for
    every path string. -/
theorem findMount_order_independent (m1 m2 : List Path) (hperm : ∀ x, x ∈ m1 ↔ x ∈ m2)
    (cwd p : Path) : findMount m1 cwd p = findMount m2 cwd p := by
  unfold findMount
  generalize mountKeyPath cwd p = path
  have s1 := findMountLoop_spec path m1 none (by simp)
  have s2 := findMountLoop_spec path m2 none (by simp)
  by_cases hin : path ∈ m1
  · rw [s1.1 hin, s2.1 ((hperm path).1 hin)]
  · have hin2 : path ∉ m2 := fun h => hin ((hperm path).2 h)
    have t1 := s1.2 hin
    have t2 := s2.2 hin2
    simp only [Option.toList_none, List.nil_append] at t1 t2
    rcases exists_best path m1 with ⟨m, hm⟩ | hnone
    · have hm' : IsBest path m2 m := by
        obtain ⟨a, b, c⟩ := hm
        exact ⟨(hperm m).1 a, b, fun k hk => c k ((hperm k).2 hk)⟩
      rw [t1.1 m hm, t2.1 m hm']
    · rw [t1.2 hnone, t2.2 (fun k hk => hnone k ((hperm k).2 hk))]

/-- what the code guarantees about the chosen mount: it is a *string* prefix of the
    cleaned path, and the relative path is the remainder (or `/`) -/
theorem findMount_string_prefix (mounts : List Path) (cwd p m rel : Path)
    (h : findMount mounts cwd p = some (m, rel)) :
    m ∈ mounts ∧ (m = mountKeyPath cwd p ∨ mountMatches (mountKeyPath cwd p) m = true) := by
  unfold findMount at h
  generalize mountKeyPath cwd p = path at h
  have s := findMountLoop_spec path mounts none (by simp)
  by_cases hin : path ∈ mounts
  · rw [s.1 hin] at h
    simp only [Option.some.injEq, Prod.mk.injEq] at h
    rw [← h.1]
    exact ⟨hin, Or.inl rfl⟩
  · have t := s.2 hin
    simp only [Option.toList_none, List.nil_append] at t
    rcases exists_best path mounts with ⟨b, hb⟩ | hnone
    · rw [t.1 b hb] at h
      simp only [Option.some.injEq, Prod.mk.injEq] at h
      rw [← h.1]; exact ⟨hb.1, Or.inr hb.2.1⟩
    · rw [t.2 hnone] at h; cases h

theorem hasPrefix_split {p k : Path} (h : hasPrefix p k = true) : ∃ s, p = k ++ s := by
  induction k generalizing p with
  | nil => exact ⟨p, rfl⟩
  | cons x xs ih =>
    cases p with
    | nil => simp [hasPrefix] at h
    | cons y ys =>
      simp only [hasPrefix, Bool.and_eq_true, beq_iff_eq] at h
      obtain ⟨s, hs⟩ := ih h.2
      exact ⟨s, by rw [h.1, hs]; rfl⟩

theorem isCompPrefix_append (a b : List Path) : isCompPrefix a (a ++ b) = true := by
  induction a with
  | nil => cases b <;> rfl
  | cons x xs ih => simp [isCompPrefix, ih]

theorem comps_append_sep (a b : Path) : comps (a ++ 47 :: b) = comps a ++ comps b := by
  simp [comps, split_append_sep, List.filter_append]

theorem split_snoc_sep (a : Path) : split (a ++ [47]) = split a ++ [[]] := by
  have := split_append_sep a []
  simpa [split] using this

theorem getLast_eq_snoc {k : Path} (h : k.getLast? = some 47) : ∃ k', k = k' ++ [47] := by
  induction k with
  | nil => simp at h
  | cons x xs ih =>
    cases xs with
    | nil => simp at h; exact ⟨[], by simp [h]⟩
    | cons y ys =>
      have : (y :: ys).getLast? = some 47 := by simpa [List.getLast?_cons_cons] using h
      obtain ⟨k', hk'⟩ := ih this
      exact ⟨x :: k', by rw [hk']; rfl⟩

/-- a mount point that matches at a component boundary is a component-wise prefix -/
theorem mountMatches_compPrefix {path k : Path} (h : mountMatches path k = true) :
    isCompPrefix (comps k) (comps path) = true := by
  simp only [mountMatches, Bool.and_eq_true, Bool.or_eq_true, beq_iff_eq] at h
  obtain ⟨hp, hb⟩ := h
  obtain ⟨s, rfl⟩ := hasPrefix_split hp
  rcases hb with hb | hb
  · -- the mount point ends with '/'
    obtain ⟨k', rfl⟩ := getLast_eq_snoc (by simpa [hasSuffixSlash] using hb)
    have h1 : comps (k' ++ [47]) = comps k' := by simp [comps, split_snoc_sep, List.filter_append]
    have h2 : comps (k' ++ [47] ++ s) = comps k' ++ comps s := by
      have e : k' ++ [47] ++ s = k' ++ 47 :: s := by simp
      rw [e]; exact comps_append_sep k' s
    rw [h1, h2]
    exact isCompPrefix_append _ _
  · -- the byte after the mount point is '/'
    cases s with
    | nil => simp at hb
    | cons c cs =>
      have : c = 47 := by simpa using hb
      subst this
      rw [comps_append_sep]
      exact isCompPrefix_append _ _

theorem comps_self_prefix (p : Path) : isCompPrefix (comps p) (comps p) = true := by
  have := isCompPrefix_append (comps p) []
  simpa using this

/-- **Mounts are selected at component boundaries** (holds since the `fix:` commit in
    os/virtual.go; before it `/tmpfoo/x` was served by the mount `/tmp` as `foo/x`): for every
    mount table, working directory and path string, the mount that serves the path is a
    component-wise prefix of the (cleaned) path. -/
theorem C13_mounts_component_prefix (mounts : List Path) (cwd p m rel : Path)
    (h : findMount mounts cwd p = some (m, rel)) :
    isCompPrefix (comps m) (comps (mountKeyPath cwd p)) = true := by
  rcases (findMount_string_prefix mounts cwd p m rel h).2 with he | hm
  · rw [he]; exact comps_self_prefix _
  · exact mountMatches_compPrefix hm

/-- the old defect's guard is false on every answer of the repaired code -/
theorem C13_stringPrefixOnly_never (mounts : List Path) (cwd p : Path) :
    stringPrefixOnly mounts cwd p = false := by
  unfold stringPrefixOnly
  cases h : findMount mounts cwd p with
  | none => rfl
  | some mr =>
    obtain ⟨m, rel⟩ := mr
    simp [C13_mounts_component_prefix mounts cwd p m rel h]

/-- mount `/tmp`, path `/tmpfoo/x`: no longer served by `/tmp` -/
def cexMounts : List Path := [[47, 116, 109, 112]]
def cexPath : Path := [47, 116, 109, 112, 102, 111, 111, 47, 120]
theorem C13_former_counterexample_refused : findMount cexMounts [47] cexPath = none := by decide

/-! ### Non-vacuity: concrete inputs satisfying the hypotheses -/

-- base "/srv/data", request "a/../../x/./y" is rejected; "/../x" resolves inside the base
example : newBase [47,115,114,118] = some [47,115,114,118] := by decide
example : resolvePath [47,115,114,118] [97,47,46,46,47,46,46,47,120] = .invalid := by decide
example : resolvePath [47,115,114,118] [47,46,46,47,120] = .ok [47,115,114,118,47,120] := by decide
example : findMount [[47,97],[47,97,47,98]] [47] [47,97,47,98,47,99] = some ([47,97,47,98], [47,99]) := by decide
example : stringPrefixOnly [[47,97],[47,97,47,98]] [47] [47,97,47,98,47,99] = false := by decide

/-! ### two-path operations (rename, symlink): both arguments are routed independently -/

theorem hasPrefix_length {p k : Path} (h : hasPrefix p k = true) : k.length ≤ p.length := by
  obtain ⟨s, rfl⟩ := hasPrefix_split h
  simp

theorem hasPrefix_self (p : Path) : hasPrefix p p = true := by
  induction p with
  | nil => rfl
  | cons x xs ih => simp [hasPrefix, ih]

/-- the mount `findMount` answers with is the LONGEST mount point that matches the (cleaned)
    path at a component boundary, and the relative path is the rest of that path — for every
    mount table, working directory and path string. -/
theorem findMount_longest (mounts : List Path) (cwd p m rel : Path)
    (h : findMount mounts cwd p = some (m, rel)) :
    rel = relOf (mountKeyPath cwd p) m ∧
    ∀ k ∈ mounts, (k = mountKeyPath cwd p ∨ mountMatches (mountKeyPath cwd p) k = true) →
      k.length ≤ m.length := by
  unfold findMount at h
  generalize mountKeyPath cwd p = path at h
  have s := findMountLoop_spec path mounts none (by simp)
  by_cases hin : path ∈ mounts
  · rw [s.1 hin] at h
    simp only [Option.some.injEq, Prod.mk.injEq] at h
    obtain ⟨hm, hr⟩ := h
    subst hm
    refine ⟨?_, ?_⟩
    · rw [← hr]; simp [relOf, trimPrefix, hasPrefix_self]
    · intro k _ hk
      rcases hk with rfl | hk
      · exact Nat.le_refl _
      · exact hasPrefix_length (mountMatches_hasPrefix hk)
  · have t := s.2 hin
    simp only [Option.toList_none, List.nil_append] at t
    rcases exists_best path mounts with ⟨b, hb⟩ | hnone
    · rw [t.1 b hb] at h
      simp only [Option.some.injEq, Prod.mk.injEq] at h
      obtain ⟨hm, hr⟩ := h
      subst hm
      refine ⟨hr.symm, ?_⟩
      intro k hk hkm
      rcases hkm with rfl | hkm
      · exact absurd hk hin
      · exact hb.2.2 k hk hkm
    · rw [t.2 hnone] at h; cases h

/-- **A path that lies under a mount point is served** — by that mount or a longer one, never
    refused and never handed to a shorter (enclosing) mount: for every mount table, working
    directory and path string, if some mount point `k` equals the (cleaned) path or matches it
    at a component boundary, `findMount` answers, and with a mount point at least as long. -/
theorem findMount_serves_every_match (mounts : List Path) (cwd p k : Path) (hk : k ∈ mounts)
    (hm : k = mountKeyPath cwd p ∨ mountMatches (mountKeyPath cwd p) k = true) :
    ∃ m rel, findMount mounts cwd p = some (m, rel) ∧ k.length ≤ m.length := by
  unfold findMount
  generalize mountKeyPath cwd p = path at hm
  have s := findMountLoop_spec path mounts none (by simp)
  by_cases hin : path ∈ mounts
  · refine ⟨path, [47], s.1 hin, ?_⟩
    rcases hm with rfl | hm
    · exact Nat.le_refl _
    · exact hasPrefix_length (mountMatches_hasPrefix hm)
  · have t := s.2 hin
    simp only [Option.toList_none, List.nil_append] at t
    have hkm : mountMatches path k = true := by
      rcases hm with rfl | hm
      · exact absurd hk hin
      · exact hm
    rcases exists_best path mounts with ⟨b, hb⟩ | hnone
    · exact ⟨b, relOf path b, t.1 b hb, hb.2.2 k hk hkm⟩
    · rw [hnone k hk] at hkm; cases hkm

/-- **Mount points registered with a trailing separator** (`/vault/` — what
    `risor --virtual-os --mount dir:/vault/` produces: the destination string is used verbatim
    as key and target): every path whose cleaned form continues such a mount point is served by
    that mount or a longer one — not by the enclosing mount (`/`), and not refused — and the
    serving mount is a component-wise prefix of the path. -/
theorem trailing_sep_mount_serves_below (mounts : List Path) (cwd p k' s : Path)
    (hk : k' ++ [47] ∈ mounts) (hkey : mountKeyPath cwd p = k' ++ 47 :: s) :
    ∃ m rel, findMount mounts cwd p = some (m, rel) ∧ (k' ++ [47]).length ≤ m.length
      ∧ isCompPrefix (comps m) (comps (mountKeyPath cwd p)) = true := by
  have hmm : mountMatches (mountKeyPath cwd p) (k' ++ [47]) = true := by
    rw [hkey]
    have e : k' ++ 47 :: s = (k' ++ [47]) ++ s := by simp
    rw [e]
    have h1 : hasPrefix ((k' ++ [47]) ++ s) (k' ++ [47]) = true := hasPrefix_append _ _
    have h2 : hasSuffixSlash (k' ++ [47]) = true := by simp [hasSuffixSlash]
    simp only [mountMatches, h1, h2, Bool.true_or, Bool.and_self]
  obtain ⟨m, rel, h, hl⟩ := findMount_serves_every_match mounts cwd p (k' ++ [47]) hk (Or.inr hmm)
  exact ⟨m, rel, h, hl, C13_mounts_component_prefix mounts cwd p m rel h⟩

/-- mounts `/` and `/v/`, path `/v/x` -/
def tsMounts : List Path := [[47], [47, 118, 47]]
def tsPath : Path := [47, 118, 47, 120]

/-- **Looking up the path's ancestor directories instead of scanning the mount table is NOT
    equivalent**: the code serves `/v/x` from the mount registered as `/v/` (relative path `x`);
    the parent walk never sees a key that ends with a separator and hands the path to the
    enclosing mount `/` as `v/x`. -/
theorem parent_walk_misses_trailing_sep_mount :
    findMount tsMounts [47] tsPath = some ([47, 118, 47], [120])
    ∧ findMountByParents tsMounts [47] tsPath = some ([47], [118, 47, 120])
    ∧ specMount tsMounts [47] tsPath = some [47, 118, 47] := by decide

theorem comps_sep_cons (s : Path) : comps (47 :: s) = comps s := by
  have := comps_append_sep [] s
  simp [comps, split] at this ⊢

/-- **The relative path handed to the serving filesystem is the path's own remainder below the
    mount point**: the components of the mount point followed by the components of the relative
    path are exactly the components of the cleaned path — nothing is dropped, added or
    re-interpreted, for every mount table and path string. -/
theorem findMount_rel_faithful (mounts : List Path) (cwd p m rel : Path)
    (h : findMount mounts cwd p = some (m, rel)) : relFaithful m rel cwd p = true := by
  have hr := (findMount_longest mounts cwd p m rel h).1
  have hm := (findMount_string_prefix mounts cwd p m rel h).2
  unfold relFaithful
  generalize mountKeyPath cwd p = key at hr hm
  simp only [beq_iff_eq]
  rcases hm with rfl | hm
  · subst hr
    simp [relOf, trimPrefix, hasPrefix_self, comps, split]
  · simp only [mountMatches, Bool.and_eq_true, Bool.or_eq_true, beq_iff_eq] at hm
    obtain ⟨hp, hb⟩ := hm
    obtain ⟨s, rfl⟩ := hasPrefix_split hp
    have htrim : trimPrefix (m ++ s) m = s := by simp [trimPrefix, hasPrefix_append]
    subst hr
    simp only [relOf, htrim]
    cases s with
    | nil =>
      simp [comps, split]
    | cons c cs =>
      simp only [List.isEmpty_cons, Bool.false_eq_true, ↓reduceIte]
      rcases hb with hb | hb
      · obtain ⟨k', rfl⟩ := getLast_eq_snoc (by simpa [hasSuffixSlash] using hb)
        have h1 : comps (k' ++ [47]) = comps k' := by simp [comps, split_snoc_sep, List.filter_append]
        have e : k' ++ [47] ++ c :: cs = k' ++ 47 :: (c :: cs) := by simp
        rw [h1, e, comps_append_sep]
      · have : c = 47 := by simpa using hb
        subst this
        rw [comps_append_sep, comps_sep_cons]

/-- **Two-path operations route each argument by its own lookup** (`VirtualOS.Rename`,
    `VirtualOS.Symlink`): for every mount table, working directory and pair of path strings,
    the operation reaches a filesystem — mount `m` with relative paths `r1`, `r2` — exactly
    when the lookup of the FIRST path answers `(m, r1)` and the lookup of the SECOND path,
    made on its own against the whole mount table, answers `(m, r2)`. -/
theorem twoPath_routed_independently (mounts : List Path) (cwd p q m r1 r2 : Path) :
    twoPath mounts cwd p q = .forward m r1 r2 ↔
      findMount mounts cwd p = some (m, r1) ∧ findMount mounts cwd q = some (m, r2) := by
  unfold twoPath
  cases h1 : findMount mounts cwd p with
  | none => simp
  | some a =>
    obtain ⟨m1, s1⟩ := a
    cases h2 : findMount mounts cwd q with
    | none => simp
    | some b =>
      obtain ⟨m2, s2⟩ := b
      simp only [Option.some.injEq, Prod.mk.injEq]
      by_cases hm : m1 = m2
      · subst hm
        simp only [↓reduceIte, TwoRes.forward.injEq]
        constructor
        · rintro ⟨rfl, rfl, rfl⟩; exact ⟨⟨rfl, rfl⟩, rfl, rfl⟩
        · rintro ⟨⟨rfl, rfl⟩, _, rfl⟩; exact ⟨rfl, rfl, rfl⟩
      · simp only [hm, ↓reduceIte]
        constructor
        · intro h; cases h
        · rintro ⟨⟨rfl, _⟩, rfl, _⟩; exact absurd rfl hm

/-- **An operation whose two paths belong to different mounts is refused**: nothing is
    forwarded to any filesystem — for every mount table and pair of path strings. -/
theorem cross_mount_refused (mounts : List Path) (cwd p q m1 r1 m2 r2 : Path)
    (h1 : findMount mounts cwd p = some (m1, r1)) (h2 : findMount mounts cwd q = some (m2, r2))
    (hne : m1 ≠ m2) : twoPath mounts cwd p q = .cross := by
  simp [twoPath, h1, h2, hne]

/-- … and so is one with a path that lies under no mount point -/
theorem unmounted_refused (mounts : List Path) (cwd p q : Path)
    (h : findMount mounts cwd p = none ∨ findMount mounts cwd q = none) :
    ∀ m r1 r2, twoPath mounts cwd p q ≠ .forward m r1 r2 := by
  intro m r1 r2 hf
  rw [twoPath_routed_independently] at hf
  rcases h with h | h
  · rw [h] at hf; cases hf.1
  · rw [h] at hf; cases hf.2

/-- **What a forwarded two-path operation guarantees about BOTH arguments**: the serving mount
    is in the table, is a component-wise prefix of each cleaned path, is the longest mount
    point matching each of them (so neither path belongs to a nested mount), and each relative
    path is the rest of its own cleaned path below the mount point. -/
theorem twoPath_forward_both_longest (mounts : List Path) (cwd p q m r1 r2 : Path)
    (h : twoPath mounts cwd p q = .forward m r1 r2) :
    m ∈ mounts ∧
    isCompPrefix (comps m) (comps (mountKeyPath cwd p)) = true ∧
    isCompPrefix (comps m) (comps (mountKeyPath cwd q)) = true ∧
    r1 = relOf (mountKeyPath cwd p) m ∧ r2 = relOf (mountKeyPath cwd q) m ∧
    (∀ k ∈ mounts, (k = mountKeyPath cwd p ∨ mountMatches (mountKeyPath cwd p) k = true) → k.length ≤ m.length) ∧
    (∀ k ∈ mounts, (k = mountKeyPath cwd q ∨ mountMatches (mountKeyPath cwd q) k = true) → k.length ≤ m.length) := by
  obtain ⟨h1, h2⟩ := (twoPath_routed_independently mounts cwd p q m r1 r2).1 h
  exact ⟨(findMount_string_prefix mounts cwd p m r1 h1).1,
    C13_mounts_component_prefix mounts cwd p m r1 h1,
    C13_mounts_component_prefix mounts cwd q m r2 h2,
    (findMount_longest mounts cwd p m r1 h1).1, (findMount_longest mounts cwd q m r2 h2).1,
    (findMount_longest mounts cwd p m r1 h1).2, (findMount_longest mounts cwd q m r2 h2).2⟩

/-- both relative paths of a forwarded two-path operation are faithful remainders -/
theorem twoPath_rels_faithful (mounts : List Path) (cwd p q m r1 r2 : Path)
    (h : twoPath mounts cwd p q = .forward m r1 r2) :
    relFaithful m r1 cwd p = true ∧ relFaithful m r2 cwd q = true := by
  obtain ⟨h1, h2⟩ := (twoPath_routed_independently mounts cwd p q m r1 r2).1 h
  exact ⟨findMount_rel_faithful mounts cwd p m r1 h1, findMount_rel_faithful mounts cwd q m r2 h2⟩

/-- the two arguments are treated alike: swapping them swaps the relative paths and nothing else -/
theorem twoPath_symmetric (mounts : List Path) (cwd p q m r1 r2 : Path) :
    twoPath mounts cwd p q = .forward m r1 r2 ↔ twoPath mounts cwd q p = .forward m r2 r1 := by
  rw [twoPath_routed_independently, twoPath_routed_independently]
  exact ⟨fun h => ⟨h.2, h.1⟩, fun h => ⟨h.2, h.1⟩⟩

/-- two-path routing does not depend on Go's map iteration order either -/
theorem twoPath_order_independent (m1 m2 : List Path) (hperm : ∀ x, x ∈ m1 ↔ x ∈ m2)
    (cwd p q : Path) : twoPath m1 cwd p q = twoPath m2 cwd p q := by
  unfold twoPath
  rw [findMount_order_independent m1 m2 hperm cwd p, findMount_order_independent m1 m2 hperm cwd q]

-- mounts "/" and "/priv"
def nestedMounts : List Path := [[47], [47,112,114,105,118]]
-- "/note.txt" and "/priv/moved.txt"
def notePath : Path := [47,110,111,116,101,46,116,120,116]
def privMoved : Path := [47,112,114,105,118,47,109,111,118,101,100,46,116,120,116]

/-- nested mount points `/` and `/priv`: `Rename("/note.txt", "/priv/moved.txt")` is refused
    as crossing filesystems; inside one mount it is forwarded with both relative paths -/
theorem nested_cross_refused : twoPath nestedMounts [47] notePath privMoved = .cross := by decide
example : twoPath nestedMounts [47] privMoved notePath = .cross := by decide
example : specTwoPath nestedMounts [47] notePath privMoved = none := by decide
example : twoPath nestedMounts [47,112,114,105,118] [97] [46,46,47,112,114,105,118,47,98]
    = .forward [47,112,114,105,118] [47,97] [47,98] := by decide
example : twoPath nestedMounts [47] notePath [47,120] = .forward [47] (notePath.drop 1) [120] := by decide

/-- the shortcut "resolve the second path against the first path's mount" is NOT equivalent:
    on the same input it hands `priv/moved.txt` — a path of the nested mount — to the root
    filesystem (this is why `twoPath_routed_independently` is stated for both arguments) -/
theorem shortcut_routes_into_nested_mount :
    twoPathShortcut nestedMounts [47] notePath privMoved = .forward [47] (notePath.drop 1) (privMoved.drop 1)
    ∧ twoPath nestedMounts [47] notePath privMoved ≠ twoPathShortcut nestedMounts [47] notePath privMoved := by
  decide

/-! ### sessions -/

theorem cwdAfter_append (c : Path) (a b : List SOp) : cwdAfter c (a ++ b) = cwdAfter (cwdAfter c a) b := by
  induction a generalizing c with
  | nil => rfl
  | cons o a ih => cases o <;> simp [cwdAfter, ih]

theorem runSession_append (ms : List Path) (c : Path) (a b : List SOp) :
    runSession ms c (a ++ b) = runSession ms c a ++ runSession ms (cwdAfter c a) b := by
  induction a generalizing c with
  | nil => rfl
  | cons o a ih => cases o <;> simp [runSession, cwdAfter, ih]

/-- C13 (sessions): after ANY history of working-directory changes and lookups, the answer to
    a lookup is `findMount` at the working directory of that moment. -/
theorem session_answers (ms : List Path) (c : Path) (pre : List SOp) (p : Path) :
    (runSession ms c (pre ++ [.lookup p])).getLast? = some (findMount ms (cwdAfter c pre) p) := by
  rw [runSession_append]
  simp [runSession]

/-- … and earlier lookups are irrelevant to it: only the `Chdir`s of the history matter
    (a lookup remembered under the path string it was asked with would break this). -/
theorem session_lookups_irrelevant (c : Path) (pre : List SOp) :
    cwdAfter c (pre.filter SOp.isChdir) = cwdAfter c pre := by
  induction pre generalizing c with
  | nil => rfl
  | cons o r ih => cases o <;> simp [List.filter, SOp.isChdir, cwdAfter, ih]

theorem session_answer_independent_of_lookups (ms : List Path) (c : Path) (pre : List SOp) (p : Path) :
    (runSession ms c (pre ++ [.lookup p])).getLast? =
      (runSession ms c (pre.filter SOp.isChdir ++ [.lookup p])).getLast? := by
  rw [session_answers, session_answers, session_lookups_irrelevant]

-- the same relative path under two working directories is served by two mounts
example : runSession [[47,112,117,98],[47,112,114,105,118]] [47]
    [.chdir [47,112,117,98], .lookup [110], .chdir [47,112,114,105,118], .lookup [110]] =
    [some ([47,112,117,98], [47,110]), some ([47,112,114,105,118], [47,110])] := by decide

/-! ### the local filesystem used over time: host paths handed out and handed back

`MkdirTemp` returns, `WalkDir` reports to its callback and the files returned by
`Create`/`Open`/`OpenFile` name HOST paths (`<base>/t-123`, `<base>/data/x`).  A caller may hand
such a path back, with anything appended.  The statements below are about every sequence of
calls, every argument built that way, every generated name and every directory content. -/

/-- `r` lies in the directory tree whose root has the components `cb` -/
def Under (rooted : Bool) (cb : List Path) (r : Path) : Prop :=
  ∃ rest, Good rest ∧ r = render rooted (cb ++ rest)

theorem good_append {a b : List Path} (ha : Good a) (hb : Good b) : Good (a ++ b) := by
  intro x hx
  rcases List.mem_append.1 hx with h | h
  · exact ha x h
  · exact hb x h

theorem good_single {n : Path} (hn : plain n = true) (hs : 47 ∉ n) : Good [n] := by
  intro x hx
  simp only [List.mem_cons, List.not_mem_nil, or_false] at hx
  subst hx
  exact ⟨hn, hs⟩

/-- the base stored by `localfs.New` is the rendering of plain, separator-free components -/
theorem newBase_repr (b0 base : Path) (hbase : newBase b0 = some base) (h1 : base ≠ []) :
    ∃ cb, Good cb ∧ base = render (isAbs b0) cb := by
  have hb0 : b0.isEmpty = false := by
    cases b0 with
    | nil => simp_all [newBase]
    | cons _ _ => rfl
  simp only [newBase, hb0, Bool.false_eq_true, ↓reduceIte] at hbase
  split at hbase
  · cases hbase
  · rename_i hpre
    simp only [Option.some.injEq] at hbase
    have hpre' : hasPrefix (cleanStr b0) dotdot = false := by simpa using hpre
    obtain ⟨cb, hrb, hcb⟩ := cleanStr_repr b0 hpre'
    exact ⟨cb, hcb, by rw [← hbase, hrb]⟩

/-- `resolvePath_confined` for a base given by its components -/
theorem resolvePath_under (rb : Bool) (cb : List Path) (base p r : Path) (hcb : Good cb)
    (hb : base = render rb cb) (h2 : base ≠ [47])
    (h : resolvePath base p = .ok r) : Under rb cb r := by
  have h1 : base ≠ [] := by rw [hb]; exact render_ne_nil rb cb hcb
  unfold resolvePath at h
  simp only at h
  split at h
  · cases h
  · rename_i hc
    have hc' : hasPrefix (cleanStr p) dotdot = false := by simpa using hc
    obtain ⟨cp, hrp, hcp⟩ := cleanStr_repr p hc'
    have hbe : (base == [] || base == [47]) = false := by
      rw [beq_false_of_ne h1, beq_false_of_ne h2]; rfl
    rw [hbe] at h
    simp only [Bool.false_eq_true, ↓reduceIte, Res.ok.injEq] at h
    have hbne : base.isEmpty = false := by
      cases hh : base with
      | nil => exact absurd hh h1
      | cons _ _ => rfl
    have hcne : (cleanStr p).isEmpty = false := by
      rw [hrp]; cases hh : render (isAbs p) cp with
      | nil => exact absurd hh (render_ne_nil _ cp hcp)
      | cons _ _ => rfl
    refine ⟨cp, hcp, ?_⟩
    rw [← h, join2, hbne, hcne]
    simp only [Bool.and_self, Bool.false_eq_true, ↓reduceIte]
    rw [hb, hrp, clean_join_render _ _ cb cp hcb hcp]

theorem render_isEmpty (rb : Bool) (cs : List Path) (h : Good cs) : (render rb cs).isEmpty = false := by
  cases hh : render rb cs with
  | nil => exact absurd hh (render_ne_nil _ cs h)
  | cons _ _ => rfl

/-- `filepath.Join(dir, name)` of a rendered directory and a directory-entry name -/
theorem join2_render_comp (rb : Bool) (cs : List Path) (n : Path) (hcs : Good cs)
    (hn : plain n = true) (hs : 47 ∉ n) : join2 (render rb cs) n = render rb (cs ++ [n]) := by
  have hne : n ≠ [] := ((plain_iff n).1 hn).1
  have h2 : n.isEmpty = false := by
    cases hh : n with
    | nil => exact absurd hh hne
    | cons _ _ => rfl
  have hr : render false [n] = n := by simp [render, joinSep]
  rw [join2, render_isEmpty rb cs hcs, h2]
  simp only [Bool.and_self, Bool.false_eq_true, ↓reduceIte]
  have := clean_join_render rb false cs [n] hcs (good_single hn hs)
  rw [hr] at this
  exact this

theorem foldl_join2_render (rb : Bool) (cs rel : List Path) (hcs : Good cs) (hrel : Good rel) :
    rel.foldl join2 (render rb cs) = render rb (cs ++ rel) := by
  induction rel generalizing cs with
  | nil => simp
  | cons n rel ih =>
    simp only [List.foldl_cons]
    rw [join2_render_comp rb cs n hcs (hrel n (by simp)).1 (hrel n (by simp)).2,
      ih (cs ++ [n]) (good_append hcs (good_single (hrel n (by simp)).1 (hrel n (by simp)).2))
        (fun x hx => hrel x (by simp [hx]))]
    simp

theorem split_render (rb : Bool) (cs : List Path) (h : Good cs) (hne : cs ≠ []) :
    split (render rb cs) = if rb then [] :: cs else cs := by
  have hs : ∀ x ∈ cs, 47 ∉ x := fun x hx => (h x hx).2
  cases rb with
  | true => simp [render, split, split_joinSep cs hne hs]
  | false =>
    cases cs with
    | nil => exact absurd rfl hne
    | cons c t => simp [render, split_joinSep (c :: t) hne hs]

/-- a rendered, non-empty component list does not end with a separator -/
theorem render_no_trailing_sep (rb : Bool) (cs : List Path) (h : Good cs) (hne : cs ≠ []) :
    hasSuffixSlash (render rb cs) = false := by
  cases hh : hasSuffixSlash (render rb cs) with
  | false => rfl
  | true =>
    exfalso
    obtain ⟨k', hk'⟩ := getLast_eq_snoc (by simpa [hasSuffixSlash] using hh)
    have hsp : split (render rb cs) = split k' ++ [[]] := by rw [hk', split_snoc_sep]
    rw [split_render rb cs h hne] at hsp
    have hl : cs.getLast? = some [] := by
      cases rb with
      | true =>
        have : ([] :: cs).getLast? = some [] := by
          have e : ([] :: cs : List Path) = split k' ++ [[]] := by simpa using hsp
          rw [e]; simp
        cases cs with
        | nil => exact absurd rfl hne
        | cons c t => simpa [List.getLast?_cons_cons] using this
      | false =>
        have e : cs = split k' ++ [[]] := by simpa using hsp
        rw [e]; simp
    have hmem : ([] : Path) ∈ cs := List.mem_of_getLast? hl
    have := ((plain_iff []).1 (h [] hmem).1).1
    exact this rfl

theorem render_snoc (rb : Bool) (cs : List Path) (n : Path) (hne : cs ≠ []) :
    render rb (cs ++ [n]) = render rb cs ++ 47 :: n := by
  have hj : joinSep (cs ++ [n]) = joinSep cs ++ 47 :: n := by
    rw [joinSep_append cs [n] hne (by simp)]; simp [joinSep]
  cases rb with
  | true => simp [render, hj]
  | false =>
    cases cs with
    | nil => exact absurd rfl hne
    | cons c t =>
      simp only [render, Bool.false_eq_true, ↓reduceIte, List.cons_append, List.isEmpty_cons]
      exact hj

/-- the path `os.MkdirTemp` builds from a rendered directory and the generated name -/
theorem hostJoin_render (rb : Bool) (cs : List Path) (n : Path) (h : Good cs) (hne : cs ≠ []) :
    hostJoin (render rb cs) n = render rb (cs ++ [n]) := by
  rw [hostJoin, render_no_trailing_sep rb cs h hne, render_snoc rb cs n hne]
  simp

def srvBase0 : Path := [47,115,114,118]

theorem patternParts_mem (pat pre suf : Path) (h : patternParts pat = some (pre, suf)) :
    ∀ x, (x ∈ pre ∨ x ∈ suf) → x ∈ pat := by
  induction pat generalizing pre suf with
  | nil => simp [patternParts] at h
  | cons c cs ih =>
    simp only [patternParts] at h
    split at h
    · rename_i pre' suf' hp
      simp only [Option.some.injEq, Prod.mk.injEq] at h
      obtain ⟨rfl, rfl⟩ := h
      intro x hx
      rcases hx with hx | hx
      · rcases List.mem_cons.1 hx with rfl | hx
        · simp
        · exact List.mem_cons_of_mem _ (ih pre' suf' hp x (Or.inl hx))
      · exact List.mem_cons_of_mem _ (ih pre' suf' hp x (Or.inr hx))
    · split at h
      · simp only [Option.some.injEq, Prod.mk.injEq] at h
        obtain ⟨rfl, rfl⟩ := h
        intro x hx
        rcases hx with hx | hx
        · simp at hx
        · exact List.mem_cons_of_mem _ hx
      · cases h

/-- **The name `os.MkdirTemp` makes from ANY pattern it accepts is a plain directory-entry
    name**: for every pattern (arbitrary bytes) and every non-empty string of decimal digits, the
    generated name contains no separator and is not empty, `.` or `..`; a pattern with a
    separator yields no name at all. -/
theorem tempName_plain (pattern rnd name : Path) (hne : rnd ≠ [])
    (hd : ∀ x ∈ rnd, 48 ≤ x ∧ x ≤ 57) (h : tempName pattern rnd = some name) :
    plain name = true ∧ 47 ∉ name := by
  unfold tempName at h
  split at h
  · cases h
  · rename_i hsep
    have hp : 47 ∉ pattern := by
      intro hmem
      exact hsep (by simpa using hmem)
    have hr : 47 ∉ rnd := fun hmem => by have := hd 47 hmem; omega
    obtain ⟨d, rest, rfl⟩ : ∃ d rest, rnd = d :: rest := by
      cases rnd with
      | nil => exact absurd rfl hne
      | cons d rest => exact ⟨d, rest, rfl⟩
    have hdd := hd d (by simp)
    have key : d ∈ name ∧ 47 ∉ name := by
      split at h
      · rename_i pre suf hparts
        simp only [Option.some.injEq] at h
        subst h
        refine ⟨by simp, ?_⟩
        intro hm
        simp only [List.mem_append] at hm
        rcases hm with (hm | hm) | hm
        · exact hp (patternParts_mem pattern pre suf hparts 47 (Or.inl hm))
        · exact hr hm
        · exact hp (patternParts_mem pattern pre suf hparts 47 (Or.inr hm))
      · simp only [Option.some.injEq] at h
        subst h
        refine ⟨by simp, ?_⟩
        intro hm
        simp only [List.mem_append] at hm
        rcases hm with hm | hm
        · exact hp hm
        · exact hr hm
    refine ⟨(plain_iff name).2 ⟨?_, ?_, ?_⟩, key.2⟩
    · intro e; rw [e] at key; simp at key
    · intro e; rw [e] at key
      have : d = 46 := by simpa using key.1
      omega
    · intro e; rw [e] at key
      have : d = 46 := by simpa [dotdot] using key.1
      omega

/-- a pattern with a path separator is refused: the call touches nothing and hands nothing out -/
theorem mkdirTemp_separator_pattern_refused (base : Path) (st : LState) (dir : LArg)
    (pattern rnd : Path) (h : 47 ∈ pattern) : lstep base st (.mkdirTempP dir pattern rnd) = st := by
  have : tempName pattern rnd = none := by
    unfold tempName
    have hc : pattern.contains 47 = true := by simpa using h
    rw [if_pos hc]
  simp [lstep, this]

/-- base `/srv`, pattern `../esc-*`, digits `7` -/
def escPattern : Path := [46, 46, 47, 101, 115, 99, 45, 42]

/-- **Building the temporary directory's path from the pattern without `os.MkdirTemp`'s
    separator test is NOT equivalent**: the code refuses the pattern `../esc-*`; joining it to the
    (confined) directory with `filepath.Join` gives `/esc-7`, outside the base `/srv`. -/
theorem pattern_join_escapes :
    lstep srvBase0 {} (.mkdirTempP (.lit []) escPattern [55]) = {}
    ∧ tempPathJoined srvBase0 escPattern [55] = [47, 101, 115, 99, 45, 55]
    ∧ hasPrefix (tempPathJoined srvBase0 escPattern [55]) srvBase0 = false := by decide

/-- what a session must supply about the environment: a generated temporary name and the
    directory-entry names below a walked root are plain names (not empty, `.`, `..`; no
    separator) — what the operating system guarantees of directory entries -/
def LOp.WF : LOp → Prop
  | .mkdirTemp _ name => plain name = true ∧ 47 ∉ name
  | .mkdirTempP _ _ rnd => rnd ≠ [] ∧ ∀ x ∈ rnd, 48 ≤ x ∧ x ≤ 57   -- decimal digits; the PATTERN is arbitrary
  | .walk _ rels => ∀ rel ∈ rels, Good rel
  | _ => True

/-- everything touched and everything handed out so far lies under the base -/
def LInv (rb : Bool) (cb : List Path) (st : LState) : Prop :=
  (∀ r ∈ st.touched, Under rb cb r) ∧ (∀ r ∈ st.handed, Under rb cb r)

theorem under_base (rb : Bool) (cb : List Path) : Under rb cb (render rb cb) :=
  ⟨[], by simp [Good], by simp⟩

theorem linv_extend (rb : Bool) (cb : List Path) (st : LState) (ts hs : List Path)
    (hinv : LInv rb cb st) (ht : ∀ r ∈ ts, Under rb cb r) (hh : ∀ r ∈ hs, Under rb cb r) :
    LInv rb cb { handed := st.handed ++ hs, touched := st.touched ++ ts } := by
  refine ⟨?_, ?_⟩
  · intro r hr
    rcases List.mem_append.1 hr with h | h
    · exact hinv.1 r h
    · exact ht r h
  · intro r hr
    rcases List.mem_append.1 hr with h | h
    · exact hinv.2 r h
    · exact hh r h

theorem walkPaths_under (rb : Bool) (cb : List Path) (r : Path) (rels : List (List Path))
    (hcb : Good cb) (hr : Under rb cb r) (hrels : ∀ rel ∈ rels, Good rel) :
    ∀ x ∈ walkPaths r rels, Under rb cb x := by
  obtain ⟨rest, hrest, rfl⟩ := hr
  intro x hx
  simp only [walkPaths, List.mem_cons, List.mem_map] at hx
  rcases hx with rfl | ⟨rel, hrel, rfl⟩
  · exact ⟨rest, hrest, rfl⟩
  · rw [foldl_join2_render rb (cb ++ rest) rel (good_append hcb hrest) (hrels rel hrel)]
    exact ⟨rest ++ rel, good_append hrest (hrels rel hrel), by simp⟩

theorem lstep_inv (rb : Bool) (cb : List Path) (base : Path) (hcb : Good cb) (hne : cb ≠ [])
    (hb : base = render rb cb) (h2 : base ≠ [47]) (st : LState) (op : LOp) (hwf : op.WF)
    (hinv : LInv rb cb st) : LInv rb cb (lstep base st op) := by
  have hres : ∀ p r, localResolve base p = .ok r → Under rb cb r :=
    fun p r h => resolvePath_under rb cb base p r hcb hb h2 h
  have hsame : LInv rb cb { handed := st.handed, touched := st.touched } := hinv
  cases op with
  | access a =>
    simp only [lstep]
    split
    · rename_i r hr
      have := linv_extend rb cb st [r] [] hinv (by simpa using hres _ r hr) (by simp)
      simpa using this
    · exact hinv
  | openFile a =>
    simp only [lstep]
    split
    · rename_i r hr
      exact linv_extend rb cb st [r] [r] hinv (by simpa using hres _ r hr) (by simpa using hres _ r hr)
    · exact hinv
  | access2 a b =>
    simp only [lstep]
    split
    · exact hinv
    · rename_i r1 hr1
      split
      · exact hinv
      · rename_i r2 hr2
        have := linv_extend rb cb st [r1, r2] [] hinv (by
          intro r hr
          simp only [List.mem_cons, List.not_mem_nil, or_false] at hr
          rcases hr with rfl | rfl
          · exact hres _ _ hr1
          · exact hres _ _ hr2) (by simp)
        simpa using this
  | mkdirTemp dir name =>
    simp only [lstep]
    split
    · rename_i d hd
      have hdu : Under rb cb d := by
        unfold mkdirTempDir at hd
        split at hd
        · simp only [Res.ok.injEq] at hd
          rw [← hd, hb]; exact under_base rb cb
        · exact hres _ d hd
      obtain ⟨rest, hrest, rfl⟩ := hdu
      have hu : Under rb cb (hostJoin (render rb (cb ++ rest)) name) := by
        rw [hostJoin_render rb (cb ++ rest) name (good_append hcb hrest) (by simp [hne])]
        exact ⟨rest ++ [name], good_append hrest (good_single hwf.1 hwf.2), by simp⟩
      exact linv_extend rb cb st [_] [_] hinv (by simpa using hu) (by simpa using hu)
    · exact hinv
  | mkdirTempP dir pattern rnd =>
    simp only [lstep]
    split
    · exact hinv
    · rename_i name hname
      have hpl := tempName_plain pattern rnd name hwf.1 hwf.2 hname
      split
      · rename_i d hd
        have hdu : Under rb cb d := by
          unfold mkdirTempDir at hd
          split at hd
          · simp only [Res.ok.injEq] at hd
            rw [← hd, hb]; exact under_base rb cb
          · exact hres _ d hd
        obtain ⟨rest, hrest, rfl⟩ := hdu
        have hu : Under rb cb (hostJoin (render rb (cb ++ rest)) name) := by
          rw [hostJoin_render rb (cb ++ rest) name (good_append hcb hrest) (by simp [hne])]
          exact ⟨rest ++ [name], good_append hrest (good_single hpl.1 hpl.2), by simp⟩
        exact linv_extend rb cb st [_] [_] hinv (by simpa using hu) (by simpa using hu)
      · exact hinv
  | walk root rels =>
    simp only [lstep]
    split
    · rename_i r hr
      have hw := walkPaths_under rb cb r rels hcb (hres _ r hr) hwf
      exact linv_extend rb cb st _ _ hinv hw hw
    · exact hinv

theorem lrun_inv (rb : Bool) (cb : List Path) (base : Path) (hcb : Good cb) (hne : cb ≠ [])
    (hb : base = render rb cb) (h2 : base ≠ [47]) (ops : List LOp) (hwf : ∀ op ∈ ops, op.WF)
    (st : LState) (hinv : LInv rb cb st) : LInv rb cb (ops.foldl (lstep base) st) := by
  induction ops generalizing st with
  | nil => exact hinv
  | cons op ops ih =>
    simp only [List.foldl_cons]
    exact ih (fun o ho => hwf o (by simp [ho])) _
      (lstep_inv rb cb base hcb hne hb h2 st op (hwf op (by simp)) hinv)

/-- **A rooted local filesystem stays confined over ANY sequence of calls, also when the host
    paths it handed out itself come back.**  For every base that `localfs.New` accepts (other
    than the unrooted ones `""`, `/` and the working directory `.`), every sequence of calls —
    one-path and two-path operations, `MkdirTemp`, `WalkDir`, opening files — whose path
    arguments are arbitrary byte strings OR any host path handed out earlier in the session
    (a `MkdirTemp` result, a path reported by `WalkDir`, a file's `Name()`) with arbitrary bytes
    appended (`/../..`, a sibling's name, anything), every generated temporary name and every
    directory content: each host path that reaches the Go `os` package and each host path
    handed to the caller is the rendering of the base's components followed by plain
    components — it lies under the base at a component boundary, with no `.`/`..`/empty
    component left. -/
theorem lsession_confined (b0 base : Path) (hbase : newBase b0 = some base)
    (h1 : base ≠ []) (h2 : base ≠ [47]) (h3 : base ≠ [46])
    (ops : List LOp) (hwf : ∀ op ∈ ops, op.WF) :
    ∃ cb, Good cb ∧ cb ≠ [] ∧ base = render (isAbs b0) cb ∧
      ∀ r, (r ∈ (lrun base ops).touched ∨ r ∈ (lrun base ops).handed) → Under (isAbs b0) cb r := by
  obtain ⟨cb, hcb, hb⟩ := newBase_repr b0 base hbase h1
  have hne : cb ≠ [] := by
    intro e
    subst e
    cases hr : isAbs b0 with
    | true => rw [hr] at hb; exact h2 (by simpa [render, joinSep] using hb)
    | false => rw [hr] at hb; exact h3 (by simpa [render] using hb)
  have hinv := lrun_inv (isAbs b0) cb base hcb hne hb h2 ops hwf {} ⟨by simp, by simp⟩
  refine ⟨cb, hcb, hne, hb, ?_⟩
  intro r hr
  rcases hr with h | h
  · exact hinv.1 r h
  · exact hinv.2 r h

/-- string-level reading of `Under`: the base itself, or the base, a separator and more bytes -/
theorem under_string (rb : Bool) (cb : List Path) (r : Path) (hne : cb ≠ []) (h : Under rb cb r) :
    r = render rb cb ∨ ∃ s, r = render rb cb ++ 47 :: s := by
  obtain ⟨rest, _, rfl⟩ := h
  cases rest with
  | nil => left; simp
  | cons c t =>
    right
    refine ⟨joinSep (c :: t), ?_⟩
    have hj := joinSep_append cb (c :: t) hne (by simp)
    cases rb with
    | true => simp [render, hj]
    | false =>
      cases cb with
      | nil => exact absurd rfl hne
      | cons d u =>
        simp only [render, Bool.false_eq_true, ↓reduceIte, List.cons_append, List.isEmpty_cons]
        exact hj

/-- … read on strings: everything a session touches or hands out is the base directory itself
    or begins with the base directory followed by a separator -/
theorem lsession_confined_string (b0 base : Path) (hbase : newBase b0 = some base)
    (h1 : base ≠ []) (h2 : base ≠ [47]) (h3 : base ≠ [46])
    (ops : List LOp) (hwf : ∀ op ∈ ops, op.WF) (r : Path)
    (hr : r ∈ (lrun base ops).touched ∨ r ∈ (lrun base ops).handed) :
    r = base ∨ ∃ s, r = base ++ 47 :: s := by
  obtain ⟨cb, _, hne, hb, hall⟩ := lsession_confined b0 base hbase h1 h2 h3 ops hwf
  rw [hb]
  exact under_string (isAbs b0) cb r hne (hall r hr)

/-- **No path that begins with the filesystem's own host base directory gets out**, whatever
    follows the base: for every byte string `s`, `<base>/s` is either refused or resolved under
    the base.  (The base directory is no secret — `MkdirTemp` and `WalkDir` disclose it.) -/
theorem own_host_prefix_confined (b0 base s r : Path) (hbase : newBase b0 = some base)
    (h1 : base ≠ []) (h2 : base ≠ [47]) (h : localResolve base (base ++ 47 :: s) = .ok r) :
    ∃ cb rest, Good cb ∧ Good rest ∧ base = render (isAbs b0) cb
      ∧ r = render (isAbs b0) (cb ++ rest) :=
  resolvePath_confined b0 base _ r hbase h1 h2 h

theorem cleanStr_render_rooted (cs : List Path) (h : Good cs) :
    cleanStr (render true cs) = render true cs := by
  have hab : isAbs (render true cs) = true := by simp [render, isAbs]
  rw [cleanStr, render_isEmpty true cs h]
  simp only [Bool.false_eq_true, ↓reduceIte, hab, cleanComps]
  rw [foldl_split_render true true [] cs h]
  simp

/-- **What the code does with a host path that comes back: it nests it under the base a second
    time.**  For an absolute base with components `cb`, a path under it, `<base>/rest`, handed
    back as it is resolves to `<base>/<base>/rest` — never to itself.  (An inconvenience for the
    caller, and exactly what keeps the raw string from being trusted.) -/
theorem handed_back_nests (cb rest : List Path) (base : Path) (hcb : Good cb) (hrest : Good rest)
    (hb : base = render true cb) (h2 : base ≠ [47]) :
    localResolve base (render true (cb ++ rest)) = .ok (render true (cb ++ (cb ++ rest))) := by
  have hg := good_append hcb hrest
  have hnp : hasPrefix (render true (cb ++ rest)) dotdot = false := by
    simp [render, hasPrefix, dotdot]
  have h1 : base ≠ [] := by rw [hb]; exact render_ne_nil true cb hcb
  have hbe : (base == [] || base == [47]) = false := by
    rw [beq_false_of_ne h1, beq_false_of_ne h2]; rfl
  unfold localResolve resolvePath
  simp only [cleanStr_render_rooted _ hg, hnp, hbe, Bool.false_eq_true, ↓reduceIte, Res.ok.injEq]
  rw [join2, hb, render_isEmpty true cb hcb, render_isEmpty true _ hg]
  simp only [Bool.and_self, Bool.false_eq_true, ↓reduceIte]
  exact clean_join_render true true cb (cb ++ rest) hcb hg

-- base "/srv"; MkdirTemp("") hands out "/srv/t1"; "/srv/t1" ++ "/../../etc" is then read
def srvBase : Path := [47,115,114,118]
def climb : Path := [47,46,46,47,46,46,47,101,116,99]

/-- a concrete session: the handed-out path with `/../../etc` appended stays inside -/
theorem handed_back_session_example :
    lrun srvBase [.mkdirTemp (.lit []) [116,49], .access (.handed 0 climb)] =
      { handed := [srvBase ++ [47,116,49]],
        touched := [srvBase ++ [47,116,49], srvBase ++ [47,101,116,99]] } := by decide

example : LOp.WF (.mkdirTemp (.lit []) [116,49]) := ⟨by decide, by decide⟩
example : newBase srvBase = some srvBase := by decide

/-- accepting "our own host paths" as they are, recognised on the RAW string, is NOT
    equivalent: `/srv/t1/../../etc` begins with `/srv/`, is passed on verbatim, and names the
    host's `/etc`; the code resolves the same string to `/srv/etc`. -/
theorem passthrough_escapes :
    localResolvePassThrough srvBase (srvBase ++ [47,116,49] ++ climb) = .ok (srvBase ++ [47,116,49] ++ climb)
    ∧ cleanStr (srvBase ++ [47,116,49] ++ climb) = [47,101,116,99]
    ∧ localResolve srvBase (srvBase ++ [47,116,49] ++ climb) = .ok (srvBase ++ [47,101,116,99]) := by
  decide

/-! ### links made, moved and read through: the tree stays closed under the filesystem's own
    operations

`Symlink`, `Rename` and `Remove`/`RemoveAll` are confined argument by argument (above).  The
statements below are about what the TREE looks like after any sequence of such calls — which
links exist, with which content — and about where the host kernel ends when a later call reads
through them. -/

/-- every link the session made holds a host path under the base -/
def KInv (rb : Bool) (cb : List Path) (links : Links) : Prop := ∀ e ∈ links, Under rb cb e.2

theorem kstep_inv (rb : Bool) (cb : List Path) (base : Path) (hcb : Good cb)
    (hb : base = render rb cb) (h2 : base ≠ [47]) (cwd : List Path) (fuel : Nat) (links : Links)
    (op : KOp) (hinv : KInv rb cb links) : KInv rb cb (kstep base cwd fuel links op) := by
  have hres : ∀ p r, localResolve base p = .ok r → Under rb cb r :=
    fun p r h => resolvePath_under rb cb base p r hcb hb h2 h
  cases op with
  | symlink old new ok =>
    simp only [kstep, kstepG]
    split
    · rename_i r1 r2 hr1 hr2
      split
      · split
        · intro e he
          simp only [List.mem_cons] at he
          rcases he with rfl | he
          · exact hres _ _ hr1
          · exact hinv e he
        · exact hinv
      · exact hinv
    · exact hinv
  | rename old new ok =>
    simp only [kstep, kstepG]
    split
    · split
      · split
        · split
          · exact hinv
          · intro e he
            simp only [List.mem_map, List.mem_filter] at he
            obtain ⟨e', ⟨he', _⟩, rfl⟩ := he
            exact hinv e' he'
        · exact hinv
      · exact hinv
    · exact hinv
  | remove p ok =>
    simp only [kstep, kstepG]
    split
    · split
      · split
        · intro e he
          simp only [List.mem_filter] at he
          exact hinv e he.1
        · exact hinv
      · exact hinv
    · exact hinv

theorem krun_inv (rb : Bool) (cb : List Path) (base : Path) (hcb : Good cb)
    (hb : base = render rb cb) (h2 : base ≠ [47]) (cwd : List Path) (fuel : Nat) (ops : List KOp)
    (links : Links) (hinv : KInv rb cb links) :
    KInv rb cb (ops.foldl (kstep base cwd fuel) links) := by
  induction ops generalizing links with
  | nil => exact hinv
  | cons op ops ih =>
    simp only [List.foldl_cons]
    exact ih _ (kstep_inv rb cb base hcb hb h2 cwd fuel links op hinv)

/-- **`Rename` and `Remove` never change what a link holds** (they move or drop entries): every
    content in the tree after the call was in the tree before it. -/
theorem rename_remove_keep_contents (base : Path) (cwd : List Path) (fuel : Nat) (links : Links)
    (op : KOp) (hop : ∀ o n k, op ≠ .symlink o n k) :
    ∀ e ∈ kstep base cwd fuel links op, ∃ e' ∈ links, e'.2 = e.2 := by
  intro e he
  cases op with
  | symlink o n k => exact absurd rfl (hop o n k)
  | rename old new ok =>
    simp only [kstep, kstepG] at he
    split at he
    · split at he
      · split at he
        · split at he
          · exact ⟨e, he, rfl⟩
          · simp only [List.mem_map, List.mem_filter] at he
            obtain ⟨e', ⟨he', _⟩, rfl⟩ := he
            exact ⟨e', he', rfl⟩
        · exact ⟨e, he, rfl⟩
      · exact ⟨e, he, rfl⟩
    · exact ⟨e, he, rfl⟩
  | remove p ok =>
    simp only [kstep, kstepG] at he
    split at he
    · split at he
      · split at he
        · simp only [List.mem_filter] at he
          exact ⟨e, he.1, rfl⟩
        · exact ⟨e, he, rfl⟩
      · exact ⟨e, he, rfl⟩
    · exact ⟨e, he, rfl⟩

theorem good_filter_plain (cs : List Path) (h : Good cs) : cs.filter plain = cs := by
  apply List.filter_eq_self.2
  intro x hx
  exact (h x hx).1

theorem good_no_dotdot (cs : List Path) (h : Good cs) : ∀ c ∈ cs, c ≠ dotdot :=
  fun c hc => ((plain_iff c).1 (h c hc).1).2.2

theorem linkAt_mem {links : Links} {loc : List Path} {content : Path}
    (h : linkAt links loc = some content) : ∃ e ∈ links, e.2 = content := by
  unfold linkAt at h
  split at h
  · rename_i e he
    simp only [Option.some.injEq] at h
    exact ⟨e, List.mem_of_find?_eq_some he, h⟩
  · cases h

/-- the kernel's walk stays under the base: when every link holds an absolute path under the
    directory with the components `cb`, a walk whose pending path lies under `cb` and has no
    `..` left ends under `cb` — whatever the links' locations, for every bound on the steps -/
theorem kwalk_confined (cb : List Path) (links : Links) (hcb : Good cb) (hne : cb ≠ [])
    (hl : KInv true cb links) :
    ∀ (fuel : Nat) (cur rest h : List Path), (∀ c ∈ rest, c ≠ dotdot) →
      (∃ t, cur ++ rest.filter plain = cb ++ t) → kwalk links fuel cur rest = some h →
      ∃ t, h = cb ++ t := by
  intro fuel
  induction fuel with
  | zero => intro cur rest h _ _ hk; simp [kwalk] at hk
  | succ fuel ih =>
    intro cur rest h hnd hpre hk
    cases rest with
    | nil =>
      simp only [kwalk, Option.some.injEq] at hk
      obtain ⟨t, ht⟩ := hpre
      exact ⟨t, by rw [← hk]; simpa using ht⟩
    | cons c rest =>
      have hnd' : ∀ x ∈ rest, x ≠ dotdot := fun x hx => hnd x (by simp [hx])
      simp only [kwalk] at hk
      by_cases hskip : c = [] ∨ c = [46]
      · rw [if_pos hskip] at hk
        have hp : plain c = false := by
          rcases hskip with rfl | rfl <;> decide
        refine ih cur rest h hnd' ?_ hk
        simpa [List.filter_cons, hp] using hpre
      · rw [if_neg hskip] at hk
        have hdd : c ≠ dotdot := hnd c (by simp)
        rw [if_neg hdd] at hk
        have hp : plain c = true := (plain_iff c).2 ⟨fun e => hskip (Or.inl e), fun e => hskip (Or.inr e), hdd⟩
        have hpre' : ∃ t, (cur ++ [c]) ++ rest.filter plain = cb ++ t := by
          simpa [List.filter_cons, hp] using hpre
        split at hk
        · rename_i content hla
          obtain ⟨e, he, rfl⟩ := linkAt_mem hla
          obtain ⟨r', hr', hc⟩ := hl e he
          have habs : isAbs e.2 = true := by rw [hc]; simp [render, isAbs]
          have hg := good_append hcb hr'
          have hsp : split e.2 = [] :: (cb ++ r') := by
            rw [hc, split_render true _ hg (by simp [hne])]; rfl
          rw [habs, hsp] at hk
          simp only [↓reduceIte] at hk
          refine ih [] _ h ?_ ?_ hk
          · intro x hx
            simp only [List.cons_append, List.mem_cons, List.mem_append] at hx
            rcases hx with rfl | hx | hx
            · decide
            · exact good_no_dotdot _ hg x (List.mem_append.2 hx)
            · exact hnd' x hx
          · refine ⟨r' ++ rest.filter plain, ?_⟩
            have h0 : plain ([] : Path) = false := by decide
            simp [h0, List.filter_append, good_filter_plain _ hcb, good_filter_plain _ hr']
        · exact ih (cur ++ [c]) rest h hnd' hpre' hk

/-- **Whatever a rooted local filesystem is asked to link, move and remove, a later read ends
    inside the base.**  For every absolute base that `localfs.New` accepts (other than `/`),
    every sequence of `Symlink`, `Rename` and `Remove`/`RemoveAll` calls with arbitrary byte
    strings as arguments and arbitrary outcomes in the kernel (`ok`), every working directory,
    every later path argument `p` and every bound on the kernel's steps: the host file that the
    kernel reaches for `p` — following every link the session made, wherever `Rename` moved it
    or a directory above it — has the base's components as a prefix.  (The links of the model
    are the ones made through this filesystem; a tree that already contains foreign links is
    outside the statement.) -/
theorem linked_read_confined (b0 base : Path) (hbase : newBase b0 = some base)
    (habs : isAbs b0 = true) (h1 : base ≠ []) (h2 : base ≠ [47])
    (cwd : List Path) (fuel fuel' : Nat) (ops : List KOp) (p : Path) (h : List Path)
    (hr : kread base cwd fuel' (krun base cwd fuel ops) p = some h) :
    ∃ cb t, Good cb ∧ base = render true cb ∧ h = cb ++ t := by
  obtain ⟨cb, hcb, hb⟩ := newBase_repr b0 base hbase h1
  rw [habs] at hb
  have hne : cb ≠ [] := by
    intro e
    subst e
    exact h2 (by simpa [render, joinSep] using hb)
  have hinv : KInv true cb (krun base cwd fuel ops) :=
    krun_inv true cb base hcb hb h2 cwd fuel ops [] (by intro e he; cases he)
  unfold kread at hr
  split at hr
  · rename_i r hres
    obtain ⟨r', hr', hc⟩ := resolvePath_under true cb base p r hcb hb h2 hres
    have hg := good_append hcb hr'
    have habs' : isAbs r = true := by rw [hc]; simp [render, isAbs]
    have hsp : split r = [] :: (cb ++ r') := by
      rw [hc, split_render true _ hg (by simp [hne])]; rfl
    unfold hostWalk at hr
    rw [habs', hsp] at hr
    simp only [↓reduceIte] at hr
    obtain ⟨t, ht⟩ := kwalk_confined cb _ hcb hne hinv fuel' [] _ h (by
        intro x hx
        simp only [List.mem_cons] at hx
        rcases hx with rfl | hx
        · decide
        · exact good_no_dotdot _ hg x hx) (by
        refine ⟨r', ?_⟩
        have h0 : plain ([] : Path) = false := by decide
        simp [h0, good_filter_plain _ hg]) hr
    exact ⟨cb, t, hcb, hb, ht⟩
  · cases hr

theorem cleanComps_rooted_good (cs : List Path) (h : Good cs) : cleanComps true ([] :: cs) = cs := by
  unfold cleanComps
  simp only [List.foldl_cons]
  rw [push_skip true [] [] (Or.inl rfl), foldl_push_plain true [] cs (fun c hc => (h c hc).1)]
  simp

/-- **No link the filesystem made leads out of the base, wherever it has been moved**: for every
    absolute base accepted by `localfs.New` (other than `/`) and every sequence of `Symlink`,
    `Rename`, `Remove`/`RemoveAll` calls (arbitrary arguments, arbitrary outcomes), each link in
    the resulting tree points — read the way the kernel reads it from the link's CURRENT
    location — under the base. -/
theorem links_closed (b0 base : Path) (hbase : newBase b0 = some base)
    (habs : isAbs b0 = true) (h1 : base ≠ []) (h2 : base ≠ [47])
    (cwd : List Path) (fuel : Nat) (ops : List KOp) :
    ∃ cb, Good cb ∧ base = render true cb ∧ linksClosed cb (krun base cwd fuel ops) = true := by
  obtain ⟨cb, hcb, hb⟩ := newBase_repr b0 base hbase h1
  rw [habs] at hb
  have hne : cb ≠ [] := by
    intro e
    subst e
    exact h2 (by simpa [render, joinSep] using hb)
  have hinv : KInv true cb (krun base cwd fuel ops) :=
    krun_inv true cb base hcb hb h2 cwd fuel ops [] (by intro e he; cases he)
  refine ⟨cb, hcb, hb, ?_⟩
  simp only [linksClosed, List.all_eq_true]
  intro e he
  obtain ⟨r', hr', hc⟩ := hinv e he
  have hg := good_append hcb hr'
  have habs' : isAbs e.2 = true := by rw [hc]; simp [render, isAbs]
  have hsp : split e.2 = [] :: (cb ++ r') := by
    rw [hc, split_render true _ hg (by simp [hne])]; rfl
  unfold linkTarget
  rw [habs', hsp]
  simp only [↓reduceIte]
  rw [cleanComps_rooted_good _ hg]
  exact isCompPrefix_append cb r'

-- base "/b"; Symlink("n", "d/l"); Rename("d/l", "l"); then a read of "l"
def lnkBase : Path := [47,98]
def lnkOps : List KOp := [.symlink [110] [100,47,108] true, .rename [100,47,108] [108] true]

/-- the code on that session: the moved link still holds `/b/n`, and the read of `l` ends at
    `/b/n` -/
theorem moved_link_example :
    krun lnkBase [] 16 lnkOps = [([[98],[108]], [47,98,47,110])]
    ∧ kread lnkBase [] 16 (krun lnkBase [] 16 lnkOps) [108] = some [[98],[110]]
    ∧ linksClosed [[98]] (krun lnkBase [] 16 lnkOps) = true := by decide

example : newBase lnkBase = some lnkBase := by decide

/-- **writing the target RELATIVE to the link's directory (`filepath.Rel(Dir(link), target)`) is
    NOT equivalent**: at creation the link denotes the same file (a read of `d/l` ends at `/b/n`
    either way), but after `Rename("d/l", "l")` — both arguments plain in-base paths — the link
    `/b/l` holds `../n`, the tree is no longer closed, and a read of `l` ends at the host's `/n`,
    outside the base. -/
theorem relative_links_escape_after_rename :
    (lnkOps.take 1).foldl (kstepRel lnkBase [] 16) [] = [([[98],[100],[108]], [46,46,47,110])]
    ∧ kread lnkBase [] 16 ((lnkOps.take 1).foldl (kstepRel lnkBase [] 16) []) [100,47,108] = some [[98],[110]]
    ∧ kread lnkBase [] 16 (krun lnkBase [] 16 (lnkOps.take 1)) [100,47,108] = some [[98],[110]]
    ∧ lnkOps.foldl (kstepRel lnkBase [] 16) [] = [([[98],[108]], [46,46,47,110])]
    ∧ linksClosed [[98]] (lnkOps.foldl (kstepRel lnkBase [] 16) []) = false
    ∧ kread lnkBase [] 16 (lnkOps.foldl (kstepRel lnkBase [] 16) []) [108] = some [[110]] := by decide

end Risor.C13
