import RisorModel.C13.Model
/-! Helper lemmas for C13 (split/join algebra, the Clean stack machine invariants). -/
namespace Risor.C13

theorem split_ne_nil (p : Path) : split p ≠ [] := by
  induction p with
  | nil => simp [split]
  | cons c cs ih =>
    unfold split
    split
    · simp
    · split <;> simp

theorem split_sepfree (p : Path) : ∀ c ∈ split p, 47 ∉ c := by
  induction p with
  | nil => simp [split]
  | cons x xs ih =>
    unfold split
    split
    · intro c hc
      simp only [List.mem_cons] at hc
      rcases hc with rfl | hc
      · simp
      · exact ih c hc
    · rename_i hx
      split
      · intro c hc; simp only [List.mem_cons, List.not_mem_nil, or_false] at hc; subst hc; simp; omega
      · rename_i h t heq
        intro c hc
        simp only [List.mem_cons] at hc
        rcases hc with rfl | hc
        · have := ih h (by rw [heq]; simp)
          simp only [List.mem_cons, not_or]
          exact ⟨fun e => hx e.symm, this⟩
        · exact ih c (by rw [heq]; simp [hc])

theorem split_append_sep (xs ys : Path) : split (xs ++ 47 :: ys) = split xs ++ split ys := by
  induction xs with
  | nil => simp [split]
  | cons x xs ih =>
    by_cases hx : x = 47
    · subst hx
      simp only [List.cons_append, split, ↓reduceIte, ih]
    · simp only [List.cons_append]
      rw [split, split]
      simp only [hx, ↓reduceIte, ih]
      cases hs : split xs with
      | nil => exact absurd hs (split_ne_nil xs)
      | cons h t => simp

theorem split_of_sepfree (c : Path) (h : 47 ∉ c) : split c = [c] := by
  induction c with
  | nil => simp [split]
  | cons x xs ih =>
    simp only [List.mem_cons, not_or] at h
    have hx : x ≠ 47 := fun e => h.1 e.symm
    rw [split]
    simp only [hx, ↓reduceIte, ih h.2]

theorem split_joinSep (cs : List Path) (hne : cs ≠ []) (hs : ∀ c ∈ cs, 47 ∉ c) :
    split (joinSep cs) = cs := by
  induction cs with
  | nil => exact absurd rfl hne
  | cons c rest ih =>
    cases rest with
    | nil => simp [joinSep, split_of_sepfree c (hs c (by simp))]
    | cons d rest =>
      simp only [joinSep]
      rw [split_append_sep, split_of_sepfree c (hs c (by simp))]
      rw [ih (by simp) (fun x hx => hs x (by simp [hx]))]
      simp

theorem joinSep_append (as bs : List Path) (ha : as ≠ []) (hb : bs ≠ []) :
    joinSep (as ++ bs) = joinSep as ++ 47 :: joinSep bs := by
  induction as with
  | nil => exact absurd rfl ha
  | cons a rest ih =>
    cases rest with
    | nil =>
      cases bs with
      | nil => exact absurd rfl hb
      | cons b bs => simp [joinSep]
    | cons d rest =>
      have := ih (by simp)
      simp only [List.cons_append, joinSep] at this ⊢
      rw [this]
      simp

/-- a component that `Clean` simply keeps -/
def plain (c : Path) : Bool := c != [] && c != [46] && c != dotdot

theorem plain_iff (c : Path) : plain c = true ↔ c ≠ [] ∧ c ≠ [46] ∧ c ≠ dotdot := by
  simp [plain, and_assoc]

theorem push_plain (rooted : Bool) (st : List Path) (c : Path) (h : plain c = true) :
    push rooted st c = c :: st := by
  obtain ⟨h1, h2, h3⟩ := (plain_iff c).1 h
  simp [push, h1, h2, h3]

theorem push_skip (rooted : Bool) (st : List Path) (c : Path) (h : c = [] ∨ c = [46]) :
    push rooted st c = st := by
  simp [push, h]

theorem foldl_push_plain (rooted : Bool) (st cs : List Path) (h : ∀ c ∈ cs, plain c = true) :
    cs.foldl (push rooted) st = cs.reverse ++ st := by
  induction cs generalizing st with
  | nil => simp
  | cons c cs ih =>
    simp only [List.foldl_cons]
    rw [push_plain rooted st c (h c (by simp)), ih _ (fun x hx => h x (by simp [hx]))]
    simp

/-- rooted clean: the stack only ever holds plain components -/
theorem push_rooted_plain (st : List Path) (c : Path) (h : ∀ x ∈ st, plain x = true) :
    ∀ x ∈ push true st c, plain x = true := by
  unfold push
  split
  · exact h
  · split
    · cases st with
      | nil => simp
      | cons x rest =>
        have hx : x ≠ dotdot := ((plain_iff x).1 (h x (by simp))).2.2
        simp only [hx, ↓reduceIte]
        exact fun y hy => h y (by simp [hy])
    · rename_i h1 h2
      simp only [not_or] at h1
      intro x hx
      simp only [List.mem_cons] at hx
      rcases hx with rfl | hx
      · exact (plain_iff _).2 ⟨h1.1, h1.2, h2⟩
      · exact h x hx

theorem foldl_rooted_plain (cs st : List Path) (h : ∀ x ∈ st, plain x = true) :
    ∀ x ∈ cs.foldl (push true) st, plain x = true := by
  induction cs generalizing st with
  | nil => exact h
  | cons c cs ih => exact ih _ (push_rooted_plain st c h)

/-- relative clean: the reversed stack is plain components on top of a run of `..` -/
def RelInv (st : List Path) : Prop :=
  ∃ a b, st = a ++ b ∧ (∀ x ∈ a, plain x = true) ∧ (∀ x ∈ b, x = dotdot)

theorem push_rel_inv (st : List Path) (c : Path) (h : RelInv st) : RelInv (push false st c) := by
  obtain ⟨a, b, rfl, ha, hb⟩ := h
  unfold push
  split
  · exact ⟨a, b, rfl, ha, hb⟩
  · split
    · cases a with
      | nil =>
        cases b with
        | nil => exact ⟨[], [dotdot], by simp, by simp, by simp⟩
        | cons x rest =>
          have hx : x = dotdot := hb x (by simp)
          simp only [List.nil_append, hx, ↓reduceIte]
          refine ⟨[], dotdot :: dotdot :: rest, by simp, by simp, ?_⟩
          intro y hy
          simp only [List.mem_cons] at hy
          rcases hy with rfl | rfl | hy
          · rfl
          · rfl
          · exact hb y (by simp [hy])
      | cons x rest =>
        have hx : x ≠ dotdot := ((plain_iff x).1 (ha x (by simp))).2.2
        simp only [List.cons_append, hx, ↓reduceIte]
        exact ⟨rest, b, rfl, fun y hy => ha y (by simp [hy]), hb⟩
    · rename_i h1 h2
      simp only [not_or] at h1
      refine ⟨c :: a, b, by simp, ?_, hb⟩
      intro x hx
      simp only [List.mem_cons] at hx
      rcases hx with rfl | hx
      · exact (plain_iff _).2 ⟨h1.1, h1.2, h2⟩
      · exact ha x hx

theorem foldl_rel_inv (cs st : List Path) (h : RelInv st) : RelInv (cs.foldl (push false) st) := by
  induction cs generalizing st with
  | nil => exact h
  | cons c cs ih => exact ih _ (push_rel_inv st c h)

/-- every component on the stack came from the input (or is `..`), hence is separator-free -/
theorem push_sepfree (rooted : Bool) (st : List Path) (c : Path)
    (hst : ∀ x ∈ st, 47 ∉ x) (hc : 47 ∉ c) : ∀ x ∈ push rooted st c, 47 ∉ x := by
  unfold push
  split
  · exact hst
  · split
    · cases st with
      | nil => cases rooted <;> simp [dotdot]
      | cons x rest =>
        show ∀ y ∈ (if x = dotdot then dotdot :: x :: rest else rest), 47 ∉ y
        split
        · intro y hy
          simp only [List.mem_cons] at hy
          rcases hy with rfl | hy
          · simp [dotdot]
          · exact hst y (by simpa using hy)
        · exact fun y hy => hst y (by simp [hy])
    · intro y hy
      simp only [List.mem_cons] at hy
      rcases hy with rfl | hy
      · exact hc
      · exact hst y hy

theorem foldl_sepfree (rooted : Bool) (cs st : List Path)
    (hst : ∀ x ∈ st, 47 ∉ x) (hcs : ∀ x ∈ cs, 47 ∉ x) :
    ∀ x ∈ cs.foldl (push rooted) st, 47 ∉ x := by
  induction cs generalizing st with
  | nil => exact hst
  | cons c cs ih =>
    exact ih _ (push_sepfree rooted st c hst (hcs c (by simp))) (fun x hx => hcs x (by simp [hx]))

theorem cleanComps_sepfree (rooted : Bool) (p : Path) :
    ∀ x ∈ cleanComps rooted (split p), 47 ∉ x := by
  intro x hx
  simp only [cleanComps, List.mem_reverse] at hx
  exact foldl_sepfree rooted (split p) [] (by simp) (split_sepfree p) x hx

theorem hasPrefix_append (a b : Path) : hasPrefix (a ++ b) a = true := by
  induction a with
  | nil => cases b <;> simp [hasPrefix]
  | cons x xs ih => simp [hasPrefix, ih]

theorem joinSep_cons_prefix (c : Path) (t : List Path) : hasPrefix (joinSep (c :: t)) c = true := by
  cases t with
  | nil => simpa [joinSep] using hasPrefix_append c []
  | cons d t => simpa [joinSep] using hasPrefix_append c (47 :: joinSep (d :: t))

end Risor.C13
