/-
C13 — executable model of the lexical path handling that confines risor's rooted
filesystems and mounts (os/os.go ResolvePath, os/localfs, os/virtual.go findMount) and of
the Go library functions they call (path/filepath Clean, Join, IsAbs; strings.HasPrefix,
TrimPrefix) on Unix.  Paths are byte lists (Go strings are bytes; '/' = 47, '.' = 46).

`cleanStr` is written at component level (split on '/', a stack machine, re-join); it is
tied to Go's real `filepath.Clean` by the exhaustive correspondence check, not by proof.
Core Lean only.
-/
namespace Risor.C13

abbrev Path := List Nat

/-- split on '/' (47); always returns at least one component -/
def split : Path → List Path
  | [] => [[]]
  | c :: cs =>
    if c = 47 then [] :: split cs
    else match split cs with
      | [] => [[c]]
      | h :: t => (c :: h) :: t

/-- join components with '/' -/
def joinSep : List Path → Path
  | [] => []
  | [c] => c
  | c :: d :: rest => c ++ 47 :: joinSep (d :: rest)

def dotdot : Path := [46, 46]

/-- one step of Go's lexical `Clean` on a reversed component stack -/
def push (rooted : Bool) (st : List Path) (c : Path) : List Path :=
  if c = [] ∨ c = [46] then st
  else if c = dotdot then
    match st with
    | [] => if rooted then [] else [dotdot]
    | x :: rest => if x = dotdot then dotdot :: x :: rest else rest
  else c :: st

def cleanComps (rooted : Bool) (cs : List Path) : List Path :=
  (cs.foldl (push rooted) []).reverse

def isAbs : Path → Bool
  | 47 :: _ => true
  | _ => false

def render (rooted : Bool) (cs : List Path) : Path :=
  if rooted then 47 :: joinSep cs
  else if cs.isEmpty then [46] else joinSep cs

/-- model of `filepath.Clean` (Unix) -/
def cleanStr (p : Path) : Path :=
  if p.isEmpty then [46] else render (isAbs p) (cleanComps (isAbs p) (split p))

/-- model of `strings.HasPrefix` -/
def hasPrefix : Path → Path → Bool
  | _, [] => true
  | [], _ :: _ => false
  | a :: as, b :: bs => a == b && hasPrefix as bs

/-- model of `filepath.Join(a, b)` for two elements (empty elements are ignored) -/
def join2 (a b : Path) : Path :=
  if a.isEmpty && b.isEmpty then []
  else if a.isEmpty then cleanStr b
  else if b.isEmpty then cleanStr a
  else cleanStr (a ++ 47 :: b)

inductive Res where
  | ok (p : Path)
  | invalid          -- fs.ErrInvalid wrapped in *fs.PathError
  deriving Repr, DecidableEq

/-- model of `os.ResolvePath(base, path, op)`; its control skeleton is also regenerated
    from the source by the extractor (Generated/C13.lean) and compared in Ties. -/
def resolvePath (base p : Path) : Res :=
  let c := cleanStr p
  if hasPrefix c dotdot then .invalid
  else if base == [] || base == [47] then .ok c
  else .ok (join2 base c)

/-- model of `localfs.New(WithBase(base))`: the stored base, or rejection -/
def newBase (base : Path) : Option Path :=
  if base.isEmpty then some []
  else
    let b := cleanStr base
    if hasPrefix b dotdot then none else some b

def hasSuffixSlash (p : Path) : Bool := p.getLast? == some 47

def trimPrefix (p pre : Path) : Path :=
  if hasPrefix p pre then p.drop pre.length else p

/-- the path string `findMount` matches against the mount table -/
def mountKeyPath (cwd p : Path) : Path :=
  let ends := hasSuffixSlash p
  let p1 := if isAbs p then p else join2 cwd p
  let p2 := cleanStr p1
  if ends && p2 != [47] then p2 ++ [47] else p2

/-- `k` is a string prefix of `path` that ends at a component boundary (the mount point ends
    with '/', or the next byte of the path is '/') -/
def mountMatches (path k : Path) : Bool :=
  hasPrefix path k && (hasSuffixSlash k || path[k.length]? == some 47)

/-- model of `VirtualOS.findMount` over mount targets (keys = targets), visited in the
    order of the list (Go visits in arbitrary map order; see `findMount_perm`).
    Returns (target, relative path). -/
def findMountLoop (path : Path) : List Path → Option Path → Option (Path × Path)
  | [], none => none
  | [], some m =>
    let rel := trimPrefix path m
    some (m, if rel.isEmpty then [47] else rel)
  | k :: ks, best =>
    if k = path then some (k, [47])
    else if mountMatches path k then
      match best with
      | none => findMountLoop path ks (some k)
      | some m => findMountLoop path ks (if k.length > m.length then some k else some m)
    else findMountLoop path ks best

def findMount (mounts : List Path) (cwd p : Path) : Option (Path × Path) :=
  findMountLoop (mountKeyPath cwd p) mounts none

/-- NOT the code: the tempting optimisation "the mount table is keyed by mount point, so look
    the path up, then each of its ancestor directories (`filepath.Dir` repeatedly), deepest
    first".  Ancestors never end with a separator, so a mount point registered WITH a trailing
    separator (`/vault/`, what `--mount dir:/vault/` produces) is only ever found for the exact
    path.  Kept as an executable definition so that `Props` can show that it hands paths below
    such a mount point to the enclosing mount (`parent_walk_misses_trailing_sep_mount`). -/
def findMountByParents (mounts : List Path) (cwd p : Path) : Option (Path × Path) :=
  let key := mountKeyPath cwd p
  if mounts.contains key then some (key, [47])
  else
    let cs := (split key).filter (fun c => !c.isEmpty)
    let ancestors := (List.range cs.length).reverse.map (fun n => 47 :: joinSep (cs.take n))
    match ancestors.find? (fun a => mounts.contains a) with
    | some m =>
      let rel := trimPrefix key m
      some (m, if rel.isEmpty then [47] else rel)
    | none => none

/-! ### Spec: what the property demands of mount selection (component-wise prefixes). -/

/-- non-empty components of a path -/
def comps (p : Path) : List Path := (split p).filter (fun c => !c.isEmpty)

def isCompPrefix : List Path → List Path → Bool
  | [], _ => true
  | _ :: _, [] => false
  | a :: as, b :: bs => a == b && isCompPrefix as bs

/-- the mount the property asks for: longest component-wise prefix among the targets -/
def specMount (mounts : List Path) (cwd p : Path) : Option Path :=
  let key := comps (mountKeyPath cwd p)
  let cands := mounts.filter (fun m => isCompPrefix (comps m) key)
  cands.foldl (fun best m => match best with
    | none => some m
    | some b => if (comps m).length > (comps b).length then some m else some b) none

/-- the defect repaired by the `fix:` commit in os/virtual.go: the chosen mount was a raw
    string prefix of the path without being a component-wise prefix of it (mount `/tmp`,
    path `/tmpfoo/x`).  Kept as an executable predicate: it must now be false on every
    answer (theorem `C13_mounts_component_prefix`), and the harness evaluates it. -/
def stringPrefixOnly (mounts : List Path) (cwd p : Path) : Bool :=
  match findMount mounts cwd p with
  | none => false
  | some (m, _) => !isCompPrefix (comps m) (comps (mountKeyPath cwd p))

/-! ### two-path operations of the virtual OS (`VirtualOS.Rename`, `VirtualOS.Symlink`,
    os/virtual.go): each of the two path arguments is looked up in the mount table on its
    own; the operation is forwarded to a filesystem only when both lookups name the SAME
    mount, and then with the two relative paths of the two lookups. -/

inductive TwoRes where
  | noMount1                       -- "no such file or directory: <first path>"
  | noMount2                       -- "no such file or directory: <second path>"
  | cross                          -- "cannot rename/symlink across filesystems"
  | forward (m rel1 rel2 : Path)   -- `m.Source.Rename(rel1, rel2)`
  deriving Repr, DecidableEq

/-- model of `VirtualOS.Rename(p, q)` / `VirtualOS.Symlink(p, q)` (mounts are identified by
    their targets: the mount table is keyed by target) -/
def twoPath (mounts : List Path) (cwd p q : Path) : TwoRes :=
  match findMount mounts cwd p with
  | none => .noMount1
  | some (m1, r1) =>
    match findMount mounts cwd q with
    | none => .noMount2
    | some (m2, r2) => if m1 = m2 then .forward m1 r1 r2 else .cross

/-- Spec of a two-path operation: each path belongs to the mount whose mount point is its own
    longest component-wise prefix; the operation may reach a filesystem only if both paths
    belong to the same mount, and then it is that mount's. -/
def specTwoPath (mounts : List Path) (cwd p q : Path) : Option Path :=
  match specMount mounts cwd p, specMount mounts cwd q with
  | some a, some b => if a = b then some a else none
  | _, _ => none

/-- the components handed to the serving filesystem must be the path's own components below
    the mount point: `comps m ++ comps rel = comps (cleaned path)` -/
def relFaithful (m rel : Path) (cwd p : Path) : Bool :=
  comps m ++ comps rel == comps (mountKeyPath cwd p)

/-- NOT the code: the tempting shortcut "both arguments have to live on the same mount anyway"
    — look up the first path, then only test that the second path lies under THAT mount point.
    Kept as an executable definition so that `Props` can show that it is wrong exactly on nested
    mount points (`shortcut_routes_into_nested_mount`). -/
def twoPathShortcut (mounts : List Path) (cwd p q : Path) : TwoRes :=
  match findMount mounts cwd p with
  | none => .noMount1
  | some (m1, r1) =>
    let key := mountKeyPath cwd q
    if key = m1 then .forward m1 r1 [47]
    else if mountMatches key m1 then
      let rel := trimPrefix key m1
      .forward m1 r1 (if rel.isEmpty then [47] else rel)
    else .cross

/-! ### sessions: lookups interleaved with `Chdir` on one VirtualOS.  `Chdir` stores the
    directory verbatim (os/virtual.go); a lookup consults the mount table with the working
    directory of that moment and leaves no trace. -/

inductive SOp where
  | chdir (d : Path)
  | lookup (p : Path)
  deriving Repr, DecidableEq

def SOp.isChdir : SOp → Bool
  | .chdir _ => true
  | .lookup _ => false

def cwdAfter : Path → List SOp → Path
  | cwd, [] => cwd
  | _, .chdir d :: r => cwdAfter d r
  | cwd, .lookup _ :: r => cwdAfter cwd r

/-- the answers of the lookups of a session, in order -/
def runSession (mounts : List Path) : Path → List SOp → List (Option (Path × Path))
  | _, [] => []
  | _, .chdir d :: r => runSession mounts d r
  | cwd, .lookup p :: r => findMount mounts cwd p :: runSession mounts cwd r

/-! ### the rooted local filesystem as an OBJECT that is used over time (os/localfs/localfs.go).
    Every method resolves each path argument with the method `(*Filesystem).resolvePath` and
    gives the result to the Go `os` package.  Some methods hand HOST paths back to the caller:
    `MkdirTemp` (its result), `WalkDir` (the paths its callback is called with) and
    `Create`/`Open`/`OpenFile` (the returned file's `Name()`).  A caller can build later
    arguments from such a path — append `/../..`, a sibling's name, anything — so a session is
    a sequence of calls whose arguments are literal strings or handed-out paths with arbitrary
    bytes appended. -/

/-- model of the method `(*Filesystem).resolvePath(path, op)`: the stored base and the RAW
    argument go to `os.ResolvePath`; nothing else looks at the argument (its body is
    regenerated from the source by the extractor and compared in Ties: `localResolve_tie`) -/
def localResolve (base p : Path) : Res := resolvePath base p

/-- Go's `os.MkdirTemp(dir, pattern)` joins the directory and the name it generated WITHOUT
    cleaning: a separator is inserted unless the directory ends with one -/
def hostJoin (d name : Path) : Path :=
  if hasSuffixSlash d then d ++ name else d ++ 47 :: name

/-- `os.MkdirTemp`'s split of its name pattern at the LAST `*` (42): `none` when there is no
    `*` (the generated digits are then appended) -/
def patternParts : Path → Option (Path × Path)
  | [] => none
  | c :: cs =>
    match patternParts cs with
    | some (pre, suf) => some (c :: pre, suf)
    | none => if c = 42 then some ([], cs) else none

/-- the directory-entry name `os.MkdirTemp(dir, pattern)` makes from the caller's PATTERN and
    the digits `rnd` it generated: a pattern that contains a path separator is refused
    (`errPatternHasSeparator`) — the pattern is the one script-controlled string of the local
    filesystem that is NOT resolved, so this refusal is what keeps it a directory-entry name -/
def tempName (pattern rnd : Path) : Option Path :=
  if pattern.contains 47 then none
  else match patternParts pattern with
    | some (pre, suf) => some (pre ++ rnd ++ suf)
    | none => some (pattern ++ rnd)

/-- NOT the code: the name built from the pattern WITHOUT the separator test and joined to the
    resolved directory with `filepath.Join` ("make the directory ourselves, with our own mode").
    Kept as an executable definition so that `Props` can show that the pattern then leads out of
    the base (`pattern_join_escapes`). -/
def tempPathJoined (d pattern rnd : Path) : Path :=
  match patternParts pattern with
  | some (pre, suf) => join2 d (pre ++ rnd ++ suf)
  | none => join2 d (pattern ++ rnd)

/-- how a caller spells a path argument -/
inductive LArg where
  | lit (p : Path)                   -- a string of the caller's own
  | handed (i : Nat) (suffix : Path) -- the i-th host path the filesystem handed out, with bytes appended
  deriving Repr, DecidableEq

def LArg.eval (hs : List Path) : LArg → Path
  | .lit p => p
  | .handed i s => hs.getD i [] ++ s

inductive LOp where
  /-- a one-path method that hands nothing back (Mkdir, MkdirAll, Stat, ReadFile, ReadDir,
      Remove, RemoveAll, WriteFile) -/
  | access (a : LArg)
  /-- Create / Open / OpenFile: the file that is returned reports the host path it was opened
      with (`File.Name()`) -/
  | openFile (a : LArg)
  /-- Rename / Symlink: both arguments are resolved, the first one first -/
  | access2 (a b : LArg)
  /-- MkdirTemp(dir, pattern); `name` is the name the operating system generated -/
  | mkdirTemp (dir : LArg) (name : Path)
  /-- MkdirTemp(dir, pattern) with the caller's PATTERN (arbitrary bytes); `rnd` are the digits
      the operating system generated -/
  | mkdirTempP (dir : LArg) (pattern rnd : Path)
  /-- WalkDir(root, fn); `rels` are the entries found below the root, each as the list of
      directory-entry names leading to it (what the host's directory tree contains) -/
  | walk (root : LArg) (rels : List (List Path))
  deriving Repr, DecidableEq

structure LState where
  handed : List Path := []    -- host paths handed to the caller so far, oldest first
  touched : List Path := []   -- host paths given to the Go `os` package so far
  deriving Repr, DecidableEq

/-- the directory `MkdirTemp` creates in: the resolved argument, or the base itself for the
    empty argument (for an unrooted filesystem, base = "", Go passes "" on and the host's
    default temporary directory is used; the model is compared on rooted filesystems only) -/
def mkdirTempDir (base d : Path) : Res :=
  if d.isEmpty then .ok base else localResolve base d

/-- the paths `filepath.WalkDir(root, …)` reports: the root, then `filepath.Join(dir, name)`
    level by level for every entry -/
def walkPaths (root : Path) (rels : List (List Path)) : List Path :=
  root :: rels.map (fun rel => rel.foldl join2 root)

def lstep (base : Path) (st : LState) : LOp → LState
  | .access a =>
    match localResolve base (a.eval st.handed) with
    | .ok r => { st with touched := st.touched ++ [r] }
    | .invalid => st
  | .openFile a =>
    match localResolve base (a.eval st.handed) with
    | .ok r => { handed := st.handed ++ [r], touched := st.touched ++ [r] }
    | .invalid => st
  | .access2 a b =>
    match localResolve base (a.eval st.handed) with
    | .invalid => st
    | .ok r1 =>
      match localResolve base (b.eval st.handed) with
      | .invalid => st
      | .ok r2 => { st with touched := st.touched ++ [r1, r2] }
  | .mkdirTemp dir name =>
    match mkdirTempDir base (dir.eval st.handed) with
    | .ok d => { handed := st.handed ++ [hostJoin d name], touched := st.touched ++ [hostJoin d name] }
    | .invalid => st
  | .mkdirTempP dir pattern rnd =>
    match tempName pattern rnd with
    | none => st
    | some name =>
      match mkdirTempDir base (dir.eval st.handed) with
      | .ok d => { handed := st.handed ++ [hostJoin d name], touched := st.touched ++ [hostJoin d name] }
      | .invalid => st
  | .walk root rels =>
    match localResolve base (root.eval st.handed) with
    | .ok r => { handed := st.handed ++ walkPaths r rels, touched := st.touched ++ walkPaths r rels }
    | .invalid => st

def lrun (base : Path) (ops : List LOp) : LState := ops.foldl (lstep base) {}

/-- NOT the code: the tempting convenience "a host path this filesystem handed out itself is
    accepted as it is when it comes back" — recognised by the RAW string starting with the base
    directory and a separator.  Kept as an executable definition so that `Props` can show that
    it lets `<base>/t1/../../x` out (`passthrough_escapes`). -/
def localResolvePassThrough (base p : Path) : Res :=
  if base != [] && base != [47] && hasPrefix p (base ++ [47]) then .ok p else resolvePath base p

/-! ### symbolic links MADE by the filesystem, moved by the filesystem, and read through
    (os/localfs/localfs.go `Symlink`, `Rename`, `Remove`/`RemoveAll`, then any read).

    Every single argument of these calls is confined lexically (above).  What a LINK denotes,
    however, is decided by the host kernel when the link is used: an absolute content is walked
    from the root, a relative content from the directory the link lies in AT THAT MOMENT.
    `Rename` moves links (and directories with links in them) without touching their content.
    So the question "does the tree stay closed under the filesystem's own operations" is about
    SEQUENCES: which links exist where, with which content, after any number of confined
    calls, and where a read through them ends.

    State: the links the session made, as (physical location as components from the host
    root, content).  Whether the kernel lets a call succeed (`ok`: existence, emptiness of
    directories, …) is a parameter of the model, like the generated name of `MkdirTemp`. -/

abbrev Links := List (List Path × Path)

def linkAt (links : Links) (loc : List Path) : Option Path :=
  match links.find? (fun e => e.1 == loc) with
  | some e => some e.2
  | none => none

/-- the host kernel's walk of a path: `cur` = the directory reached so far (components from the
    root, no links left in it), then the remaining components one by one; a component that is a
    link is replaced by its content (absolute: start again at the root; relative: continue in
    the directory of the link).  `fuel` bounds the number of steps (the kernel gives up with
    ELOOP). -/
def kwalk (links : Links) : Nat → List Path → List Path → Option (List Path)
  | 0, _, _ => none
  | _ + 1, cur, [] => some cur
  | fuel + 1, cur, c :: rest =>
    if c = [] ∨ c = [46] then kwalk links fuel cur rest
    else if c = dotdot then kwalk links fuel cur.dropLast rest
    else match linkAt links (cur ++ [c]) with
      | some content => kwalk links fuel (if isAbs content then [] else cur) (split content ++ rest)
      | none => kwalk links fuel (cur ++ [c]) rest

/-- where a host path string leads (all links followed); `cwd` = the process's working
    directory as components -/
def hostWalk (links : Links) (cwd : List Path) (fuel : Nat) (r : Path) : Option (List Path) :=
  kwalk links fuel (if isAbs r then [] else cwd) (split r)

def plainComp (c : Path) : Bool := c != [] && c != [46] && c != dotdot

/-- the directory entry a host path string names (the last component is NOT followed: what
    `symlink`, `rename`, `unlink` act on) -/
def physLoc (links : Links) (cwd : List Path) (fuel : Nat) (r : Path) : Option (List Path) :=
  match (split r).getLast? with
  | none => none
  | some last =>
    if plainComp last then
      match kwalk links fuel (if isAbs r then [] else cwd) (split r).dropLast with
      | some d => some (d ++ [last])
      | none => none
    else hostWalk links cwd fuel r

def relocate (a b loc : List Path) : List Path :=
  if isCompPrefix a loc then b ++ loc.drop a.length else loc

inductive KOp where
  | symlink (old new : Path) (ok : Bool)
  | rename (old new : Path) (ok : Bool)
  | remove (p : Path) (ok : Bool)          -- Remove and RemoveAll
  deriving Repr, DecidableEq

/-- one call; `content r1 r2` is what `Symlink` writes into the link, given the two RESOLVED
    host paths (target, link) -/
def kstepG (content : Path → Path → Path) (base : Path) (cwd : List Path) (fuel : Nat)
    (links : Links) : KOp → Links
  | .symlink old new ok =>
    match localResolve base old, localResolve base new with
    | .ok r1, .ok r2 =>
      if ok then
        match physLoc links cwd fuel r2 with
        | some loc => (loc, content r1 r2) :: links
        | none => links
      else links
    | _, _ => links
  | .rename old new ok =>
    match localResolve base old, localResolve base new with
    | .ok r1, .ok r2 =>
      if ok then
        match physLoc links cwd fuel r1, physLoc links cwd fuel r2 with
        | some a, some b =>
          if a = b then links
          else (links.filter (fun e => !isCompPrefix b e.1)).map (fun e => (relocate a b e.1, e.2))
        | _, _ => links
      else links
    | _, _ => links
  | .remove p ok =>
    match localResolve base p with
    | .ok r =>
      if ok then
        match physLoc links cwd fuel r with
        | some a => links.filter (fun e => !isCompPrefix a e.1)
        | none => links
      else links
    | .invalid => links

/-- the code: `os.Symlink(resolvedOld, resolvedNew)` — the content is the resolved host path of
    the target -/
def kstep := kstepG (fun r1 _ => r1)

def krun (base : Path) (cwd : List Path) (fuel : Nat) (ops : List KOp) : Links :=
  ops.foldl (kstep base cwd fuel) []

/-- a read (Stat, ReadFile, Open, ReadDir, …) of `p` with the links `links` in place: the host
    file it ends at -/
def kread (base : Path) (cwd : List Path) (fuel : Nat) (links : Links) (p : Path) : Option (List Path) :=
  match localResolve base p with
  | .ok r => hostWalk links cwd fuel r
  | .invalid => none

/-- Spec, per link: where the link points, read the way the kernel reads it (lexically: absolute
    content from the root, relative content from the directory of the link) -/
def linkTarget (e : List Path × Path) : List Path :=
  cleanComps true (if isAbs e.2 then split e.2 else e.1.dropLast ++ split e.2)

/-- Spec of the tree: no link leads out of the directory with the components `b` -/
def linksClosed (b : List Path) (links : Links) : Bool :=
  links.all (fun e => isCompPrefix b (linkTarget e))

/-- NOT the code: `filepath.Rel(filepath.Dir(link), target)` for two clean host paths of the same
    kind — "do not embed the host location of the base in the link".  Kept as an executable
    definition so that `Props` can show that the tree is then NOT closed under `Rename`
    (`relative_links_escape_after_rename`). -/
def relComps : List Path → List Path → List Path
  | a :: as, b :: bs => if a = b then relComps as bs else (a :: as).map (fun _ => dotdot) ++ (b :: bs)
  | as, bs => as.map (fun _ => dotdot) ++ bs

def relContent (r1 r2 : Path) : Path :=
  let r := relComps (comps r2).dropLast (comps r1)
  if r.isEmpty then [46] else joinSep r

def kstepRel := kstepG relContent

end Risor.C13
