import RisorModel.Util
