import RisorModel.Util
import RisorModel.C13.Oracle
open Risor

def dispatch (fs : List String) : String :=
  match fs with
  | "PING" :: _ => "PONG"
  | "C13" :: rest => C13.handle rest
  | _ => "error\tunknown-request"

partial def loop (hin hout : IO.FS.Stream) : IO Unit := do
  let line ← hin.getLine
  if line.isEmpty then return ()
  let out := dispatch (Util.fields line)
  hout.putStrLn out
  hout.flush
  loop hin hout

def main : IO Unit := do
  loop (← IO.getStdin) (← IO.getStdout)
