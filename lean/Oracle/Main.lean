import RisorModel.Util
import RisorModel.C13.Oracle
import RisorModel.C01.Oracle
import RisorModel.C02.Oracle
import RisorModel.C03.Oracle
import RisorModel.C04.Oracle
import RisorModel.C05.Oracle
import RisorModel.C06.Oracle
import RisorModel.C07.Oracle
import RisorModel.C08.Oracle
import RisorModel.C09.Oracle
import RisorModel.C10.Oracle
import RisorModel.C11.Oracle
import RisorModel.C12.Oracle
import RisorModel.C14.Oracle
import RisorModel.C15.Oracle
import RisorModel.C16.Oracle
import RisorModel.C17.Oracle
import RisorModel.C18.Oracle
import RisorModel.C19.Oracle
import RisorModel.C20.Oracle
open Risor

def dispatch (fs : List String) : String :=
  match fs with
  | "PING" :: _ => "PONG"
  | "C13" :: rest => C13.handle rest
  | "C01" :: rest => C01.handle rest
  | "C02" :: rest => C02.handle rest
  | "C03" :: rest => C03.handle rest
  | "C04" :: rest => C04.handle rest
  | "C05" :: rest => C05.handle rest
  | "C06" :: rest => C06.handle rest
  | "C07" :: rest => C07.handle rest
  | "C08" :: rest => C08.handle rest
  | "C09" :: rest => C09.handle rest
  | "C10" :: rest => C10.handle rest
  | "C11" :: rest => C11.handle rest
  | "C12" :: rest => C12.handle rest
  | "C14" :: rest => C14.handle rest
  | "C15" :: rest => C15.handle rest
  | "C16" :: rest => C16.handle rest
  | "C17" :: rest => C17.handle rest
  | "C18" :: rest => C18.handle rest
  | "C19" :: rest => C19.handle rest
  | "C20" :: rest => C20.handle rest
  | _ => "error\tunknown-request"

partial def loop (hin hout : IO.FS.Stream) : IO Unit := do
  let line ← hin.getLine
  if line.isEmpty then return ()
  let out := dispatch (Util.fields line)
  hout.putStrLn out
  hout.flush
  loop hin hout

def main : IO Unit := do
  loop (← IO.getStdin) (← IO.getStdout)
